(** * _plane_to_convex_hull_points for an arbitrary non-empty list of points, and its
      instances plane_to_rectangle / plane_to_box: feasibility (C10) and optimality (C11) of
      the model of [Model/DistPrim.v] over the reals. *)
From Coq Require Import Reals Lra Lia Psatz List Bool.
From D3 Require Import Base.Ops Base.Vec Base.RVec Base.RVec2 Spec.Convex Spec.ConvexHull Spec.Prims Model.DistPrim
  Proofs.DistBase Proofs.DistPoint Proofs.DistPlane Proofs.DistRect.
Import ListNotations. Local Open Scope R_scope.

(** ** np.argmin / np.argmax ([argbest]) on a non-empty list *)
(** [ge a b]: [a] is at least as good as [b].  [pre] is the part of the list already scanned. *)
Lemma argbest_spec (better : R -> R -> bool) (ge : R -> R -> Prop) :
  (forall a, ge a a) -> (forall a b c, ge a b -> ge b c -> ge a c) ->
  (forall x b, better x b = true -> ge x b) -> (forall x b, better x b = false -> ge b x) ->
  forall l pre i bi bv,
    length pre = i -> (bi < i)%nat -> nth bi pre 0 = bv -> (forall y, In y pre -> ge bv y) ->
    (argbest better l i bi bv < length (pre ++ l))%nat /\
    forall y, In y (pre ++ l) -> ge (nth (argbest better l i bi bv) (pre ++ l) 0) y.
Proof.
  intros Hrefl Htrans Ht Hf. induction l as [|x l IH]; intros pre i bi bv Hlen Hbi Hnth Hall.
  - cbn [argbest]. rewrite app_nil_r. split; [lia|]. intros y Hy. rewrite Hnth. apply Hall. exact Hy.
  - cbn [argbest]. replace (pre ++ x :: l) with ((pre ++ [x]) ++ l) by (rewrite <- app_assoc; reflexivity).
    destruct (better x bv) eqn:E.
    + apply IH.
      * rewrite app_length. cbn [length]. lia.
      * lia.
      * rewrite app_nth2 by lia. rewrite Hlen, Nat.sub_diag. reflexivity.
      * intros y Hy. apply in_app_or in Hy. destruct Hy as [Hy|[<-|[]]].
        -- apply Htrans with bv; [apply Ht; exact E|apply Hall; exact Hy].
        -- apply Hrefl.
    + apply IH.
      * rewrite app_length. cbn [length]. lia.
      * lia.
      * rewrite app_nth1 by lia. exact Hnth.
      * intros y Hy. apply in_app_or in Hy. destruct Hy as [Hy|[<-|[]]].
        -- apply Hall; exact Hy.
        -- apply Hf; exact E.
Qed.

Lemma argmin_R_spec (l : list R) :
  l <> [] -> (argmin l < length l)%nat /\ forall y, In y l -> nth (argmin l) l 0 <= y.
Proof.
  destruct l as [|x l]; [congruence|]. intros _. unfold argmin.
  apply (argbest_spec (fun a b => ltb a b) Rle) with (pre := [x]); try reflexivity.
  - intros; lra.
  - intros; lra.
  - intros a b H. ops_R. rb_hyp H. lra.
  - intros a b H. ops_R. rb_hyp H. lra.
  - cbn; lia.
  - intros y [<-|[]]. lra.
Qed.

Lemma argmax_R_spec (l : list R) :
  l <> [] -> (argmax l < length l)%nat /\ forall y, In y l -> y <= nth (argmax l) l 0.
Proof.
  destruct l as [|x l]; [congruence|]. intros _. unfold argmax.
  apply (argbest_spec (fun a b => ltb b a) (fun a b => b <= a)) with (pre := [x]); try reflexivity.
  - intros; lra.
  - intros; lra.
  - intros a b H. ops_R. rb_hyp H. lra.
  - intros a b H. ops_R. rb_hyp H. lra.
  - cbn; lia.
  - intros y [<-|[]]. lra.
Qed.

Lemma nth_map_R {A : Type} (f : A -> R) (l : list A) (da : A) (i : nat) :
  (i < length l)%nat -> nth i (map f l) 0 = f (nth i l da).
Proof.
  intros H. rewrite (nth_indep (map f l) 0 (f da)) by (rewrite map_length; exact H). apply map_nth.
Qed.

(** ** the signed distances of a list of points, their extremes *)
Definition sdists (pp pn : V3R) (pts : list V3R) : list R := map (fun q => dot (vsub q pp) pn) pts.
Definition sd_min (pp pn : V3R) (pts : list V3R) : R := nth (argmin (sdists pp pn pts)) (sdists pp pn pts) 0.
Definition sd_max (pp pn : V3R) (pts : list V3R) : R := nth (argmax (sdists pp pn pts)) (sdists pp pn pts) 0.
Definition pt_min (pp pn : V3R) (pts : list V3R) : V3R := nth (argmin (sdists pp pn pts)) pts vzero.
Definition pt_max (pp pn : V3R) (pts : list V3R) : V3R := nth (argmax (sdists pp pn pts)) pts vzero.

Lemma sdists_ne pp pn pts : pts <> [] -> sdists pp pn pts <> [].
Proof. destruct pts; [congruence|]. discriminate. Qed.

Lemma sd_min_spec (pp pn : V3R) (pts : list V3R) :
  pts <> [] ->
  In (pt_min pp pn pts) pts /\ sd_min pp pn pts = dot (vsub (pt_min pp pn pts) pp) pn /\
  forall p, In p pts -> sd_min pp pn pts <= dot (vsub p pp) pn.
Proof.
  intros Hne. destruct (argmin_R_spec (sdists pp pn pts) (sdists_ne pp pn pts Hne)) as [Hi Hle].
  unfold sd_min, pt_min. unfold sdists in Hi at 2. rewrite map_length in Hi.
  split; [apply nth_In; exact Hi|]. split.
  - unfold sdists at 2. apply (nth_map_R (fun q => dot (vsub q pp) pn)). exact Hi.
  - intros p Hp. apply Hle. unfold sdists. apply (in_map (fun q => dot (vsub q pp) pn)). exact Hp.
Qed.

Lemma sd_max_spec (pp pn : V3R) (pts : list V3R) :
  pts <> [] ->
  In (pt_max pp pn pts) pts /\ sd_max pp pn pts = dot (vsub (pt_max pp pn pts) pp) pn /\
  forall p, In p pts -> dot (vsub p pp) pn <= sd_max pp pn pts.
Proof.
  intros Hne. destruct (argmax_R_spec (sdists pp pn pts) (sdists_ne pp pn pts Hne)) as [Hi Hle].
  unfold sd_max, pt_max. unfold sdists in Hi at 2. rewrite map_length in Hi.
  split; [apply nth_In; exact Hi|]. split.
  - unfold sdists at 2. apply (nth_map_R (fun q => dot (vsub q pp) pn)). exact Hi.
  - intros p Hp. apply Hle. unfold sdists. apply (in_map (fun q => dot (vsub q pp) pn)). exact Hp.
Qed.

(** [argmin (map abs ts)]: the point with the smallest unsigned distance *)
Lemma sd_abs_spec (pp pn : V3R) (pts : list V3R) :
  pts <> [] ->
  let ic := argmin (map Rabs (sdists pp pn pts)) in
  In (nth ic pts vzero) pts /\ nth ic (sdists pp pn pts) 0 = dot (vsub (nth ic pts vzero) pp) pn /\
  forall p, In p pts -> Rabs (nth ic (sdists pp pn pts) 0) <= Rabs (dot (vsub p pp) pn).
Proof.
  intros Hne ic.
  assert (Hne' : map Rabs (sdists pp pn pts) <> []).
  { destruct pts; [congruence|]. discriminate. }
  destruct (argmin_R_spec _ Hne') as [Hi Hle]. fold ic in Hi, Hle.
  unfold sdists in Hi. rewrite !map_length in Hi.
  split; [apply nth_In; exact Hi|]. split.
  - unfold sdists. apply (nth_map_R (fun q => dot (vsub q pp) pn)). exact Hi.
  - intros p Hp.
    rewrite <- (nth_map_R Rabs (sdists pp pn pts) 0 ic) by (unfold sdists; rewrite map_length; exact Hi).
    apply Hle. apply in_map. unfold sdists. apply (in_map (fun q => dot (vsub q pp) pn)). exact Hp.
Qed.

(** what the model returns, arm by arm.  Arm 0 (/repo e4c9460): the point interpolated on the segment
    between the two extreme points, at the parameter where the signed distance vanishes. *)
Lemma plane_to_points_arms (pp pn : V3R) (pts : list V3R) d c1 c2 arm :
  pts <> [] ->
  plane_to_points pp pn pts = (d, c1, c2, arm) ->
  let f := fun q => dot (vsub q pp) pn in
  (arm = 0%nat /\ sd_min pp pn pts < 0 < sd_max pp pn pts /\ d = 0 /\
   c1 = vadd (pt_min pp pn pts)
             (vscale (sd_min pp pn pts / (sd_min pp pn pts - sd_max pp pn pts))
                     (vsub (pt_max pp pn pts) (pt_min pp pn pts))) /\
   c2 = c1) \/
  (arm = 1%nat /\ 0 <= sd_min pp pn pts * sd_max pp pn pts /\
   exists p, In p pts /\ d = Rabs (f p) /\ c1 = vsub p (vscale (f p) pn) /\ c2 = p /\
             forall q, In q pts -> d <= Rabs (f q)).
Proof.
  intros Hne. unfold plane_to_points. ops_R. cbv zeta.
  fold (sdists pp pn pts). fold (sd_min pp pn pts). fold (sd_max pp pn pts).
  fold (pt_min pp pn pts). fold (pt_max pp pn pts).
  destruct (sd_min_spec pp pn pts Hne) as (_ & _ & Hmin).
  destruct (sd_max_spec pp pn pts Hne) as (Imax & Emax & _).
  pose proof (Hmin _ Imax) as Hmm. rewrite <- Emax in Hmm.
  destruct (Rltb (sd_min pp pn pts * sd_max pp pn pts) 0) eqn:E; rb_hyp E.
  - intros H. apply pair_equal_spec in H. destruct H as [H <-].
    apply pair3_eq in H. destruct H as (<- & <- & <-). left.
    split; [reflexivity|]. split; [split; nra|]. split; [reflexivity|]. split; reflexivity.
  - destruct (sd_abs_spec pp pn pts Hne) as (Ic & Ec & Hc). cbv zeta in Ic, Ec, Hc.
    intros H. apply pair_equal_spec in H. destruct H as [H <-].
    apply pair3_eq in H. destruct H as (<- & <- & <-). right.
    split; [reflexivity|]. split; [exact E|].
    exists (nth (argmin (map Rabs (sdists pp pn pts))) pts vzero).
    split; [exact Ic|]. rewrite Ec. split; [reflexivity|]. split; [reflexivity|]. split; [reflexivity|].
    intros q Hq. rewrite <- Ec. apply Hc. exact Hq.
Qed.

(** the two arms separately, selected by the model's own test [ts[imin] * ts[imax] < 0] *)
Lemma plane_to_points_arm1 (pp pn : V3R) (pts : list V3R) d c1 c2 arm :
  pts <> [] -> 0 <= sd_min pp pn pts * sd_max pp pn pts ->
  plane_to_points pp pn pts = (d, c1, c2, arm) ->
  let f := fun q => dot (vsub q pp) pn in
  arm = 1%nat /\
  exists p, In p pts /\ d = Rabs (f p) /\ c1 = vsub p (vscale (f p) pn) /\ c2 = p /\
            forall q, In q pts -> d <= Rabs (f q).
Proof.
  intros Hne Hge H.
  destruct (plane_to_points_arms pp pn pts d c1 c2 arm Hne H) as [(_ & Hside & _)|(Harm & _ & R)]; [nra|].
  split; [exact Harm|exact R].
Qed.

(** the opposite-sides arm is correct for ALL inputs: [tmin < 0 < tmax] gives a parameter in (0,1), so the
    returned point is on the segment between the two extreme points, and its signed distance is
    [tmin + t (tmax - tmin) = 0].  Neither a unit normal nor a band exclusion is needed. *)
Lemma plane_to_points_arm0 (pp pn : V3R) (pts : list V3R) d c1 c2 arm :
  pts <> [] ->
  sd_min pp pn pts * sd_max pp pn pts < 0 ->
  plane_to_points pp pn pts = (d, c1, c2, arm) ->
  arm = 0%nat /\ d = 0 /\ c1 = c2 /\ plane_set pp pn c1 /\
  In (pt_min pp pn pts) pts /\ In (pt_max pp pn pts) pts /\
  segment_set (pt_min pp pn pts) (pt_max pp pn pts) c1.
Proof.
  intros Hne Hlt H.
  destruct (plane_to_points_arms pp pn pts d c1 c2 arm Hne H)
    as [(Harm & Hside & Hd & Hc1 & Hc2)|(_ & Hge & _)]; [|lra].
  destruct (sd_min_spec pp pn pts Hne) as (Imin & Emin & _).
  destruct (sd_max_spec pp pn pts Hne) as (Imax & Emax & _).
  destruct (crossing_interp pp pn _ _ _ _ Emin Emax Hside) as [Hseg Hpl].
  rewrite <- Hc1 in Hseg, Hpl. symmetry in Hc2. auto 10.
Qed.

(** either a common point on the segment between the two extreme points, or the closest vertex and
    its projection *)
Lemma plane_to_points_cases (pp pn : V3R) (pts : list V3R) d c1 c2 arm :
  pts <> [] ->
  plane_to_points pp pn pts = (d, c1, c2, arm) ->
  let f := fun q => dot (vsub q pp) pn in
  (arm = 0%nat /\ d = 0 /\ c1 = c2 /\ plane_set pp pn c1 /\
   exists p q, In p pts /\ In q pts /\ segment_set p q c1) \/
  (arm = 1%nat /\ 0 <= sd_min pp pn pts * sd_max pp pn pts /\
   exists p, In p pts /\ d = Rabs (f p) /\ c1 = vsub p (vscale (f p) pn) /\ c2 = p /\
             forall q, In q pts -> d <= Rabs (f q)).
Proof.
  intros Hne H.
  destruct (plane_to_points_arms pp pn pts d c1 c2 arm Hne H) as [(_ & Hside & _)|R];
    [left|right; exact R].
  assert (Hlt : sd_min pp pn pts * sd_max pp pn pts < 0) by nra.
  destruct (plane_to_points_arm0 pp pn pts d c1 c2 arm Hne Hlt H) as (Harm & Hd & Hc & Hpl & Imin & Imax & Hseg).
  split; [exact Harm|]. split; [exact Hd|]. split; [exact Hc|]. split; [exact Hpl|].
  exists (pt_min pp pn pts), (pt_max pp pn pts). auto.
Qed.

(** a vertex and its orthogonal projection onto the plane *)
Lemma vertex_projection_feasible (S : set3) (pp pn p : V3R) :
  dot pn pn = 1 -> S p ->
  feasible (plane_set pp pn) S (Rabs (dot (vsub p pp) pn)) (vsub p (vscale (dot (vsub p pp) pn) pn)) p.
Proof.
  intros Hu Hp. set (t := dot (vsub p pp) pn).
  split.
  { unfold plane_set. rewrite dot_sub_l, dot_sub_l, dot_scale_l, Hu. unfold t. rewrite dot_sub_l. ring. }
  split; [exact Hp|]. split; [apply Rabs_pos|].
  symmetry. apply norm_abs_of_sq.
  replace (vsub (vsub p (vscale t pn)) p) with (vscale (- t) pn) by veq.
  rewrite dot_scale_l, dot_scale_r, Hu. ring.
Qed.

(** *** C10 for an arbitrary non-empty point list and ANY set [S] that contains the points and the
    segments between them (no band hypothesis: since /repo e4c9460 the opposite-sides arm interpolates
    the crossing point itself) *)
Theorem plane_to_points_feasible (S : set3) (pp pn : V3R) (pts : list V3R) d c1 c2 arm :
  dot pn pn = 1 -> pts <> [] ->
  (forall p, In p pts -> S p) ->
  (forall p q, In p pts -> In q pts -> forall x, segment_set p q x -> S x) ->
  plane_to_points pp pn pts = (d, c1, c2, arm) ->
  feasible (plane_set pp pn) S d c1 c2.
Proof.
  intros Hu Hne Hin Hseg H.
  destruct (plane_to_points_cases pp pn pts d c1 c2 arm Hne H)
    as [(_ & -> & <- & Hp & p & q & Ip & Iq & Hx)|(_ & _ & p & Ip & -> & -> & -> & _)].
  - apply feasible_common; [exact Hp|]. exact (Hseg p q Ip Iq c1 Hx).
  - apply vertex_projection_feasible; auto.
Qed.

(** *** C11 for ANY set [S] whose signed distances stay between the extreme signed distances of the
    points (true of the convex hull of the points) *)
Theorem plane_to_points_optimal (S : set3) (pp pn : V3R) (pts : list V3R) d c1 c2 arm :
  dot pn pn = 1 -> pts <> [] ->
  (forall x, S x -> sd_min pp pn pts <= dot (vsub x pp) pn <= sd_max pp pn pts) ->
  plane_to_points pp pn pts = (d, c1, c2, arm) ->
  optimal (plane_set pp pn) S d.
Proof.
  intros Hu Hne Hhull H.
  destruct (plane_to_points_cases pp pn pts d c1 c2 arm Hne H)
    as [(_ & -> & _)|(_ & Hsign & p & Ip & _ & _ & _ & Hle)].
  - apply optimal_zero.
  - destruct (sd_min_spec pp pn pts Hne) as (Imin & Emin & Hmin).
    destruct (sd_max_spec pp pn pts Hne) as (Imax & Emax & Hmax).
    pose proof (Hle _ Imin) as Lmin. rewrite <- Emin in Lmin.
    pose proof (Hle _ Imax) as Lmax. rewrite <- Emax in Lmax.
    pose proof (Hmin _ Imax) as Hmm. rewrite <- Emax in Hmm.
    intros y x Hy Hx. rewrite norm_sub_comm.
    eapply Rle_trans; [|apply (plane_lower_bound pp pn _ y Hu Hy)].
    destruct (Hhull x Hx) as [Hlo Hhi].
    set (tmin := sd_min pp pn pts) in *. set (tmax := sd_max pp pn pts) in *.
    set (t := dot (vsub x pp) pn) in *. clearbody tmin tmax t.
    destruct (Rle_dec 0 tmin) as [P|N].
    + rewrite Rabs_pos_eq in Lmin by exact P. rewrite (Rabs_pos_eq t) by lra. lra.
    + assert (tmax <= 0) by nra.
      rewrite Rabs_left1 in Lmax by assumption. rewrite (Rabs_left1 t) by lra. lra.
Qed.

(** *** the convex hull of the points is such a set *)
Lemma hull_segment_in (pts : list V3R) (p q x : V3R) :
  In p pts -> In q pts -> segment_set p q x -> conv_hull pts x.
Proof.
  intros Ip Iq (t & Ht & ->).
  apply (conv_hull_incl [p; q] pts).
  { intros z [<-|[<-|[]]]; assumption. }
  replace (vadd p (vscale t (vsub q p))) with (vadd (vscale (1 - t) p) (vscale t q)) by veq.
  apply conv_hull_2; lra.
Qed.

Lemma hull_sd_between (pp pn : V3R) (pts : list V3R) :
  pts <> [] -> forall x, conv_hull pts x -> sd_min pp pn pts <= dot (vsub x pp) pn <= sd_max pp pn pts.
Proof.
  intros Hne x Hx.
  destruct (sd_min_spec pp pn pts Hne) as (_ & _ & Hmin).
  destruct (sd_max_spec pp pn pts Hne) as (_ & _ & Hmax).
  rewrite dot_sub_l, (dot_comm x pn). split.
  - assert (L : sd_min pp pn pts + dot pp pn <= dot pn x).
    { apply (hull_linear_lower pts pn); [|exact Hx].
      intros p Hp. specialize (Hmin p Hp). rewrite dot_sub_l, (dot_comm p pn) in Hmin. lra. }
    lra.
  - assert (L : dot pn x <= sd_max pp pn pts + dot pp pn).
    { apply (hull_linear_bound pts pn); [|exact Hx].
      intros p Hp. specialize (Hmax p Hp). rewrite dot_sub_l, (dot_comm p pn) in Hmax. lra. }
    lra.
Qed.

Theorem plane_to_points_hull_feasible (pp pn : V3R) (pts : list V3R) d c1 c2 arm :
  dot pn pn = 1 -> pts <> [] ->
  plane_to_points pp pn pts = (d, c1, c2, arm) ->
  feasible (plane_set pp pn) (conv_hull pts) d c1 c2.
Proof.
  intros Hu Hne H.
  apply (plane_to_points_feasible (conv_hull pts) pp pn pts d c1 c2 arm); auto.
  - apply conv_hull_In.
  - intros p q Ip Iq x Hx. exact (hull_segment_in pts p q x Ip Iq Hx).
Qed.

Theorem plane_to_points_hull_optimal (pp pn : V3R) (pts : list V3R) d c1 c2 arm :
  dot pn pn = 1 -> pts <> [] ->
  plane_to_points pp pn pts = (d, c1, c2, arm) ->
  optimal (plane_set pp pn) (conv_hull pts) d.
Proof.
  intros Hu Hne H.
  apply (plane_to_points_optimal (conv_hull pts) pp pn pts d c1 c2 arm); auto.
  apply hull_sd_between. exact Hne.
Qed.

(** ** scalar facts for the rectangle / box instances *)
Lemma conv_between (t a b h : R) :
  0 <= t <= 1 -> - h <= a <= h -> - h <= b <= h -> - h <= (1 - t) * a + t * b <= h.
Proof.
  intros Ht Ha Hb.
  assert (0 <= (1 - t) * (h - a)) by (apply Rmult_le_pos; lra).
  assert (0 <= t * (h - b)) by (apply Rmult_le_pos; lra).
  assert (0 <= (1 - t) * (a + h)) by (apply Rmult_le_pos; lra).
  assert (0 <= t * (b + h)) by (apply Rmult_le_pos; lra).
  split; lra.
Qed.
Lemma Rabs_conv (t a b h : R) :
  0 <= t <= 1 -> Rabs a <= h -> Rabs b <= h -> Rabs ((1 - t) * a + t * b) <= h.
Proof.
  intros Ht Ha Hb. apply Rabs_le_between' in Ha. apply Rabs_le_between' in Hb.
  apply Rabs_le. apply conv_between; assumption.
Qed.

(** an affine function on a box is bounded below by its least corner value *)
Lemma affine_box1 (m c k h a : R) :
  - h <= k <= h -> m <= c - h * a -> m <= c + h * a -> m <= c + k * a.
Proof.
  intros Hk Hlo Hhi. destruct (Rle_dec 0 a) as [P|N].
  - assert (0 <= (k + h) * a) by (apply Rmult_le_pos; lra). lra.
  - assert (0 <= (h - k) * (- a)) by (apply Rmult_le_pos; lra). lra.
Qed.
Lemma affine_box2 (m c k0 h0 a k1 h1 b : R) :
  - h0 <= k0 <= h0 -> - h1 <= k1 <= h1 ->
  m <= c - h0 * a - h1 * b -> m <= c - h0 * a + h1 * b ->
  m <= c + h0 * a - h1 * b -> m <= c + h0 * a + h1 * b ->
  m <= c + k0 * a + k1 * b.
Proof.
  intros K0 K1 Hmm Hmp Hpm Hpp. apply (affine_box1 _ _ _ h1); [exact K1| |].
  - assert (m <= (c - h1 * b) + k0 * a) by (apply (affine_box1 _ _ _ h0); lra). lra.
  - assert (m <= (c + h1 * b) + k0 * a) by (apply (affine_box1 _ _ _ h0); lra). lra.
Qed.
Lemma affine_box3 (m c k0 h0 a k1 h1 b k2 h2 g : R) :
  - h0 <= k0 <= h0 -> - h1 <= k1 <= h1 -> - h2 <= k2 <= h2 ->
  m <= c - h0 * a - h1 * b - h2 * g -> m <= c - h0 * a - h1 * b + h2 * g ->
  m <= c - h0 * a + h1 * b - h2 * g -> m <= c - h0 * a + h1 * b + h2 * g ->
  m <= c + h0 * a - h1 * b - h2 * g -> m <= c + h0 * a - h1 * b + h2 * g ->
  m <= c + h0 * a + h1 * b - h2 * g -> m <= c + h0 * a + h1 * b + h2 * g ->
  m <= c + k0 * a + k1 * b + k2 * g.
Proof.
  intros K0 K1 K2 H1 H2 H3 H4 H5 H6 H7 H8. apply (affine_box1 _ _ _ h2); [exact K2| |].
  - assert (m <= (c - h2 * g) + k0 * a + k1 * b) by (apply (affine_box2 _ _ _ h0 _ _ h1); lra). lra.
  - assert (m <= (c + h2 * g) + k0 * a + k1 * b) by (apply (affine_box2 _ _ _ h0 _ _ h1); lra). lra.
Qed.
(** ... and above by its greatest corner value *)
Lemma affine_box2_up (M c k0 h0 a k1 h1 b : R) :
  - h0 <= k0 <= h0 -> - h1 <= k1 <= h1 ->
  c - h0 * a - h1 * b <= M -> c - h0 * a + h1 * b <= M ->
  c + h0 * a - h1 * b <= M -> c + h0 * a + h1 * b <= M ->
  c + k0 * a + k1 * b <= M.
Proof.
  intros K0 K1 Hmm Hmp Hpm Hpp.
  assert (- M <= - c + k0 * (- a) + k1 * (- b)) by (apply (affine_box2 _ _ _ h0 _ _ h1); lra). lra.
Qed.
Lemma affine_box3_up (M c k0 h0 a k1 h1 b k2 h2 g : R) :
  - h0 <= k0 <= h0 -> - h1 <= k1 <= h1 -> - h2 <= k2 <= h2 ->
  c - h0 * a - h1 * b - h2 * g <= M -> c - h0 * a - h1 * b + h2 * g <= M ->
  c - h0 * a + h1 * b - h2 * g <= M -> c - h0 * a + h1 * b + h2 * g <= M ->
  c + h0 * a - h1 * b - h2 * g <= M -> c + h0 * a - h1 * b + h2 * g <= M ->
  c + h0 * a + h1 * b - h2 * g <= M -> c + h0 * a + h1 * b + h2 * g <= M ->
  c + k0 * a + k1 * b + k2 * g <= M.
Proof.
  intros K0 K1 K2 H1 H2 H3 H4 H5 H6 H7 H8.
  assert (- M <= - c + k0 * (- a) + k1 * (- b) + k2 * (- g))
    by (apply (affine_box3 _ _ _ h0 _ _ h1 _ _ h2); lra). lra.
Qed.

(** ** plane_to_rectangle *)
Lemma rect_vertices_in (c a0 a1 : V3R) (l0 l1 : R) (p : V3R) :
  0 <= l0 -> 0 <= l1 -> In p (rectangle_vertices c a0 a1 l0 l1) -> rectangle_set c a0 a1 l0 l1 p.
Proof.
  intros H0 H1. unfold rectangle_vertices. cbn [map In fst snd]. rewrite half_R. ops_R.
  intros [<-|[<-|[<-|[<-|[]]]]]; eexists; eexists; (split; [|split; [|reflexivity]]); apply Rabs_le; lra.
Qed.

(** the rectangle is convex (no assumption on the axes) *)
Lemma rect_segment_in (c a0 a1 : V3R) (l0 l1 : R) (p q x : V3R) :
  rectangle_set c a0 a1 l0 l1 p -> rectangle_set c a0 a1 l0 l1 q -> segment_set p q x ->
  rectangle_set c a0 a1 l0 l1 x.
Proof.
  intros (u0 & u1 & U0 & U1 & ->) (v0 & v1 & V0 & V1 & ->) (t & Ht & ->).
  exists ((1 - t) * u0 + t * v0), ((1 - t) * u1 + t * v1).
  split; [apply Rabs_conv; assumption|]. split; [apply Rabs_conv; assumption|]. veq.
Qed.

Lemma sd_lin2 (pp pn c a0 a1 : V3R) (u v : R) :
  dot (vsub (vadd c (vadd (vscale u a0) (vscale v a1))) pp) pn
  = dot (vsub c pp) pn + u * dot a0 pn + v * dot a1 pn.
Proof. rewrite !dot_sub_l, !dot_add_l, !dot_scale_l. ring. Qed.

Lemma sd_all_between (pp pn : V3R) (pts : list V3R) :
  pts <> [] ->
  Forall (fun p => sd_min pp pn pts <= dot (vsub p pp) pn <= sd_max pp pn pts) pts.
Proof.
  intros Hne. apply Forall_forall. intros p Hp.
  destruct (sd_min_spec pp pn pts Hne) as (_ & _ & Hmin).
  destruct (sd_max_spec pp pn pts Hne) as (_ & _ & Hmax). split; auto.
Qed.

Ltac forall_cons :=
  repeat match goal with
         | H : Forall _ (_ :: _) |- _ =>
             let H1 := fresh "Hv" in apply Forall_cons_iff in H; destruct H as [H1 H]
         end.

(** the signed distance of every point of the rectangle lies between the extreme signed
    distances of the four vertices *)
Lemma rect_sd_between (pp pn c a0 a1 : V3R) (l0 l1 : R) :
  0 <= l0 -> 0 <= l1 ->
  forall x, rectangle_set c a0 a1 l0 l1 x ->
    sd_min pp pn (rectangle_vertices c a0 a1 l0 l1) <= dot (vsub x pp) pn
    <= sd_max pp pn (rectangle_vertices c a0 a1 l0 l1).
Proof.
  intros H0 H1 x (k0 & k1 & K0 & K1 & ->).
  assert (Hne : rectangle_vertices c a0 a1 l0 l1 <> []) by (unfold rectangle_vertices; discriminate).
  pose proof (sd_all_between pp pn _ Hne) as Hall.
  set (m := sd_min pp pn (rectangle_vertices c a0 a1 l0 l1)) in *.
  set (M := sd_max pp pn (rectangle_vertices c a0 a1 l0 l1)) in *. clearbody m M.
  unfold rectangle_vertices in Hall. cbn [map fst snd] in Hall. forall_cons. clear Hall.
  rewrite sd_lin2 in *. rewrite half_R in *. ops_R.
  apply Rabs_le_between' in K0. apply Rabs_le_between' in K1.
  set (fc := dot (vsub c pp) pn) in *. set (a := dot a0 pn) in *. set (b := dot a1 pn) in *.
  clearbody fc a b.
  split.
  - apply (affine_box2 _ _ _ (l0 / 2) _ _ (l1 / 2)); lra.
  - apply (affine_box2_up _ _ _ (l0 / 2) _ _ (l1 / 2)); lra.
Qed.

(** feasible / optimal for every rectangle with non-negative side lengths; no assumption on the axes
    is needed *)
Theorem plane_to_rectangle_feasible (pp pn c a0 a1 : V3R) (l0 l1 : R) d c1 c2 arm :
  dot pn pn = 1 -> 0 <= l0 -> 0 <= l1 ->
  plane_to_rectangle pp pn c a0 a1 l0 l1 = (d, c1, c2, arm) ->
  feasible (plane_set pp pn) (rectangle_set c a0 a1 l0 l1) d c1 c2.
Proof.
  intros Hu H0 H1 H.
  apply (plane_to_points_feasible _ pp pn (rectangle_vertices c a0 a1 l0 l1) d c1 c2 arm); auto.
  - unfold rectangle_vertices; discriminate.
  - intros p Hp. apply rect_vertices_in; assumption.
  - intros p q Ip Iq x Hx.
    apply (rect_segment_in c a0 a1 l0 l1 p q x); [apply rect_vertices_in| apply rect_vertices_in|]; assumption.
Qed.

Theorem plane_to_rectangle_optimal (pp pn c a0 a1 : V3R) (l0 l1 : R) d c1 c2 arm :
  dot pn pn = 1 -> 0 <= l0 -> 0 <= l1 ->
  plane_to_rectangle pp pn c a0 a1 l0 l1 = (d, c1, c2, arm) ->
  optimal (plane_set pp pn) (rectangle_set c a0 a1 l0 l1) d.
Proof.
  intros Hu H0 H1 H.
  apply (plane_to_points_optimal _ pp pn (rectangle_vertices c a0 a1 l0 l1) d c1 c2 arm); auto.
  - unfold rectangle_vertices; discriminate.
  - apply rect_sd_between; assumption.
Qed.

(** ** plane_to_box *)
Lemma box_vertices_in (T : Pose R) (sz p : V3R) :
  0 <= vx sz -> 0 <= vy sz -> 0 <= vz sz -> In p (box_vertices T sz) -> box_of T sz p.
Proof.
  intros H0 H1 H2. unfold box_vertices. cbn [map In]. rewrite !mulMV_cols. cbn [vmul vx vy vz].
  rewrite half_R. ops_R. unfold box_of, box_set, pose_x, pose_y, pose_z.
  intros [<-|[<-|[<-|[<-|[<-|[<-|[<-|[<-|[]]]]]]]]]; eexists; eexists; eexists;
    (split; [|split; [|split; [|reflexivity]]]); apply Rabs_le; lra.
Qed.

(** the box is convex (no assumption on the pose) *)
Lemma box_segment_in (T : Pose R) (sz p q x : V3R) :
  box_of T sz p -> box_of T sz q -> segment_set p q x -> box_of T sz x.
Proof.
  unfold box_of, box_set.
  intros (u0 & u1 & u2 & U0 & U1 & U2 & ->) (v0 & v1 & v2 & V0 & V1 & V2 & ->) (t & Ht & ->).
  exists ((1 - t) * u0 + t * v0), ((1 - t) * u1 + t * v1), ((1 - t) * u2 + t * v2).
  split; [apply Rabs_conv; assumption|]. split; [apply Rabs_conv; assumption|].
  split; [apply Rabs_conv; assumption|].
  generalize (trans T) (pose_x T) (pose_y T) (pose_z T). intros c ax ay az. veq.
Qed.

Lemma sd_lin3 (pp pn c a0 a1 a2 : V3R) (u v w : R) :
  dot (vsub (vadd c (vadd (vscale u a0) (vadd (vscale v a1) (vscale w a2)))) pp) pn
  = dot (vsub c pp) pn + u * dot a0 pn + v * dot a1 pn + w * dot a2 pn.
Proof. rewrite !dot_sub_l, !dot_add_l, !dot_scale_l. ring. Qed.

(** the signed distance of every point of the box lies between the extreme signed distances of
    the eight vertices *)
Lemma box_sd_between (pp pn : V3R) (T : Pose R) (sz : V3R) :
  0 <= vx sz -> 0 <= vy sz -> 0 <= vz sz ->
  forall x, box_of T sz x ->
    sd_min pp pn (box_vertices T sz) <= dot (vsub x pp) pn <= sd_max pp pn (box_vertices T sz).
Proof.
  intros H0 H1 H2 x (k0 & k1 & k2 & K0 & K1 & K2 & ->).
  assert (Hne : box_vertices T sz <> []) by (unfold box_vertices; discriminate).
  pose proof (sd_all_between pp pn _ Hne) as Hall.
  set (m := sd_min pp pn (box_vertices T sz)) in *.
  set (M := sd_max pp pn (box_vertices T sz)) in *. clearbody m M.
  unfold box_vertices in Hall. cbn [map] in Hall. rewrite !mulMV_cols in Hall. cbn [vmul vx vy vz] in Hall.
  forall_cons. clear Hall. unfold pose_x, pose_y, pose_z.
  rewrite sd_lin3 in *. rewrite half_R in *. ops_R.
  apply Rabs_le_between' in K0. apply Rabs_le_between' in K1. apply Rabs_le_between' in K2.
  set (fc := dot (vsub (trans T) pp) pn) in *.
  set (a := dot (col (rot T) 0) pn) in *. set (b := dot (col (rot T) 1) pn) in *.
  set (g := dot (col (rot T) 2) pn) in *. clearbody fc a b g.
  split.
  - apply (affine_box3 _ _ _ (vx sz / 2) _ _ (vy sz / 2) _ _ (vz sz / 2)); lra.
  - apply (affine_box3_up _ _ _ (vx sz / 2) _ _ (vy sz / 2) _ _ (vz sz / 2)); lra.
Qed.

(** feasible / optimal for every box with non-negative sizes; no assumption on the pose is needed *)
Theorem plane_to_box_feasible (pp pn : V3R) (T : Pose R) (sz : V3R) d c1 c2 arm :
  dot pn pn = 1 -> 0 <= vx sz -> 0 <= vy sz -> 0 <= vz sz ->
  plane_to_box pp pn T sz = (d, c1, c2, arm) ->
  feasible (plane_set pp pn) (box_of T sz) d c1 c2.
Proof.
  intros Hu H0 H1 H2 H.
  apply (plane_to_points_feasible _ pp pn (box_vertices T sz) d c1 c2 arm); auto.
  - unfold box_vertices; discriminate.
  - intros p Hp. apply box_vertices_in; assumption.
  - intros p q Ip Iq x Hx.
    apply (box_segment_in T sz p q x); [apply box_vertices_in|apply box_vertices_in|]; assumption.
Qed.

Theorem plane_to_box_optimal (pp pn : V3R) (T : Pose R) (sz : V3R) d c1 c2 arm :
  dot pn pn = 1 -> 0 <= vx sz -> 0 <= vy sz -> 0 <= vz sz ->
  plane_to_box pp pn T sz = (d, c1, c2, arm) ->
  optimal (plane_set pp pn) (box_of T sz) d.
Proof.
  intros Hu H0 H1 H2 H.
  apply (plane_to_points_optimal _ pp pn (box_vertices T sz) d c1 c2 arm); auto.
  - unfold box_vertices; discriminate.
  - apply box_sd_between; assumption.
Qed.

(** strictly opposite sides: the model returns a common point with distance 0 *)
Lemma plane_to_points_crossing_result (pp pn : V3R) (pts : list V3R) :
  pts <> [] ->
  sd_min pp pn pts * sd_max pp pn pts < 0 ->
  exists x, plane_to_points pp pn pts = (0, x, x, 0%nat) /\ plane_set pp pn x.
Proof.
  intros Hne Hlt.
  destruct (plane_to_points pp pn pts) as [[[d c1] c2] arm] eqn:H.
  destruct (plane_to_points_arm0 pp pn pts d c1 c2 arm Hne Hlt H) as (-> & -> & <- & Hp & _).
  exists c1. split; [reflexivity|exact Hp].
Qed.

(** ** plane_to_triangle again, as an instance of the general theorem (same statements as
    [plane_to_triangle_feasible] / [plane_to_triangle_optimal] of DistPlane.v, which are proved by
    case analysis on three points) *)
Lemma tri_vertex_in_list (a b c p : V3R) : In p [a; b; c] -> triangle_set a b c p.
Proof.
  intros [<-|[<-|[<-|[]]]].
  - exact (tri_vertex_in a b c 0 ltac:(lia)).
  - exact (tri_vertex_in a b c 1 ltac:(lia)).
  - exact (tri_vertex_in a b c 2 ltac:(lia)).
Qed.

Lemma tri_sd_between (pp pn a b c : V3R) :
  forall x, triangle_set a b c x ->
    sd_min pp pn [a; b; c] <= dot (vsub x pp) pn <= sd_max pp pn [a; b; c].
Proof.
  intros x (v & w & Hv & Hw & Hs & ->).
  assert (Hne : [a; b; c] <> []) by discriminate.
  pose proof (sd_all_between pp pn _ Hne) as Hall.
  set (m := sd_min pp pn [a; b; c]) in *. set (M := sd_max pp pn [a; b; c]) in *. clearbody m M.
  forall_cons. clear Hall. rewrite tri_signed.
  set (fa := dot (vsub a pp) pn) in *. set (fb := dot (vsub b pp) pn) in *.
  set (fc := dot (vsub c pp) pn) in *. clearbody fa fb fc.
  assert (0 <= (1 - v - w) * (fa - m)) by (apply Rmult_le_pos; lra).
  assert (0 <= v * (fb - m)) by (apply Rmult_le_pos; lra).
  assert (0 <= w * (fc - m)) by (apply Rmult_le_pos; lra).
  assert (0 <= (1 - v - w) * (M - fa)) by (apply Rmult_le_pos; lra).
  assert (0 <= v * (M - fb)) by (apply Rmult_le_pos; lra).
  assert (0 <= w * (M - fc)) by (apply Rmult_le_pos; lra).
  split; lra.
Qed.


Theorem plane_to_triangle_feasible_via_points (pp pn a b c : V3R) d c1 c2 arm :
  dot pn pn = 1 ->
  plane_to_triangle pp pn a b c = (d, c1, c2, arm) ->
  feasible (plane_set pp pn) (triangle_set a b c) d c1 c2.
Proof.
  intros Hu H.
  apply (plane_to_points_feasible _ pp pn [a; b; c] d c1 c2 arm); auto.
  - discriminate.
  - apply tri_vertex_in_list.
  - intros p q Ip Iq x Hx.
    exact (tri_segment_in a b c p q x (tri_vertex_in_list _ _ _ _ Ip) (tri_vertex_in_list _ _ _ _ Iq) Hx).
Qed.

Theorem plane_to_triangle_optimal_via_points (pp pn a b c : V3R) d c1 c2 arm :
  dot pn pn = 1 ->
  plane_to_triangle pp pn a b c = (d, c1, c2, arm) ->
  optimal (plane_set pp pn) (triangle_set a b c) d.
Proof.
  intros Hu H.
  apply (plane_to_points_optimal _ pp pn [a; b; c] d c1 c2 arm); auto.
  - discriminate.
  - apply tri_sd_between.
Qed.

(** ** concrete inputs: both arms are reachable *)
Ltac list_veq := repeat (apply (f_equal2 (@cons V3R)); [f_equal; lra|]); reflexivity.
Ltac eval_extremes :=
  unfold sd_min, sd_max, pt_min, pt_max, sdists; cbn [map]; vunfold;
  unfold argmin, argmax, argbest; ops_R; repeat rb_dec; cbn [nth].

(** same side (or touching): the closest vertex and its projection *)
Lemma plane_to_points_same_side_result (pp pn : V3R) (pts : list V3R) :
  pts <> [] -> 0 <= sd_min pp pn pts * sd_max pp pn pts ->
  exists p, In p pts /\
    plane_to_points pp pn pts
    = (Rabs (dot (vsub p pp) pn), vsub p (vscale (dot (vsub p pp) pn) pn), p, 1%nat) /\
    forall q, In q pts -> Rabs (dot (vsub p pp) pn) <= Rabs (dot (vsub q pp) pn).
Proof.
  intros Hne Hge.
  destruct (plane_to_points pp pn pts) as [[[d c1] c2] arm] eqn:H.
  destruct (plane_to_points_arms pp pn pts d c1 c2 arm Hne H)
    as [(_ & Hside & _)|(-> & _ & p & Ip & -> & -> & -> & Hle)]; [nra|].
  exists p. split; [exact Ip|]. split; [reflexivity|exact Hle].
Qed.

(** four points, two on each side of the plane z = 0 *)
Definition ex_pts : list V3R := [V (-1) 0 (-1); V (-1) 0 1; V 1 0 (-1); V 1 0 1].
Lemma ex_pts_facts :
  sd_min (V 0 0 0) (V 0 0 1) ex_pts = -1 /\ sd_max (V 0 0 0) (V 0 0 1) ex_pts = 1.
Proof. unfold ex_pts. eval_extremes. split; lra. Qed.

Example plane_to_points_nonvacuous :
  let pp : V3R := V 0 0 0 in let pn : V3R := V 0 0 1 in
  dot pn pn = 1 /\ ex_pts <> [] /\
  sd_min pp pn ex_pts < 0 < sd_max pp pn ex_pts /\
  exists x, plane_to_points pp pn ex_pts = (0, x, x, 0%nat) /\ plane_set pp pn x /\ conv_hull ex_pts x.
Proof.
  cbv zeta. destruct ex_pts_facts as (E1 & E2).
  assert (Hu : dot (V 0 0 1 : V3R) (V 0 0 1) = 1) by (vunfold; ring).
  assert (Hne : ex_pts <> []) by discriminate.
  split; [exact Hu|]. split; [exact Hne|]. split; [rewrite E1, E2; lra|].
  destruct (plane_to_points_crossing_result (V 0 0 0) (V 0 0 1) ex_pts Hne) as (x & Hx & Hp);
    [rewrite E1, E2; lra|].
  exists x. split; [exact Hx|]. split; [exact Hp|].
  destruct (plane_to_points_hull_feasible _ _ _ _ _ _ _ Hu Hne Hx) as (_ & Hh & _). exact Hh.
Qed.

(** a rectangle standing upright on the plane z = 0 (opposite-sides arm) *)
Example plane_to_rectangle_nonvacuous :
  let pp : V3R := V 0 0 0 in let pn : V3R := V 0 0 1 in
  let c : V3R := V 0 0 0 in let a0 : V3R := V 1 0 0 in let a1 : V3R := V 0 0 1 in
  dot pn pn = 1 /\ 0 <= 2 /\
  sd_min pp pn (rectangle_vertices c a0 a1 2 2) < 0 < sd_max pp pn (rectangle_vertices c a0 a1 2 2) /\
  exists x, plane_to_rectangle pp pn c a0 a1 2 2 = (0, x, x, 0%nat) /\ plane_set pp pn x.
Proof.
  cbv zeta.
  assert (Hu : dot (V 0 0 1 : V3R) (V 0 0 1) = 1) by (vunfold; ring).
  assert (Hv : rectangle_vertices (V 0 0 0) (V 1 0 0) (V 0 0 1) 2 2 = ex_pts).
  { unfold rectangle_vertices, ex_pts. cbn [map fst snd]. rewrite half_R. ops_R. vunfold. list_veq. }
  unfold plane_to_rectangle. rewrite Hv.
  destruct ex_pts_facts as (E1 & E2).
  split; [exact Hu|]. split; [lra|]. split; [rewrite E1, E2; lra|].
  apply plane_to_points_crossing_result; [discriminate|rewrite E1, E2; lra].
Qed.

(** a rectangle hovering 3 above the plane (closest-vertex arm): the distance is 3 *)
Example plane_to_rectangle_nonvacuous_above :
  let pp : V3R := V 0 0 0 in let pn : V3R := V 0 0 1 in
  let c : V3R := V 0 0 3 in let a0 : V3R := V 1 0 0 in let a1 : V3R := V 0 1 0 in
  dot pn pn = 1 /\ 0 <= 2 /\
  exists c1 c2, plane_to_rectangle pp pn c a0 a1 2 2 = (3, c1, c2, 1%nat).
Proof.
  cbv zeta.
  assert (Hu : dot (V 0 0 1 : V3R) (V 0 0 1) = 1) by (vunfold; ring).
  assert (Hv : rectangle_vertices (V 0 0 3) (V 1 0 0) (V 0 1 0) 2 2
               = [V (-1) (-1) 3; V (-1) 1 3; V 1 (-1) 3; V 1 1 3 : V3R]).
  { unfold rectangle_vertices. cbn [map fst snd]. rewrite half_R. ops_R. vunfold. list_veq. }
  unfold plane_to_rectangle. rewrite Hv.
  set (pts := [V (-1) (-1) 3; V (-1) 1 3; V 1 (-1) 3; V 1 1 3 : V3R]).
  assert (E : sd_min (V 0 0 0) (V 0 0 1) pts = 3 /\ sd_max (V 0 0 0) (V 0 0 1) pts = 3).
  { unfold pts. eval_extremes. split; lra. }
  destruct E as (E1 & E2).
  split; [exact Hu|]. split; [lra|].
  destruct (plane_to_points_same_side_result (V 0 0 0) (V 0 0 1) pts) as (p & Ip & Hr & _);
    [discriminate|rewrite E1, E2; lra|].
  assert (Hf : dot (vsub p (V 0 0 0)) (V 0 0 1) = 3).
  { destruct Ip as [<-|[<-|[<-|[<-|[]]]]]; vunfold; ring. }
  rewrite Hf in Hr. rewrite (Rabs_pos_eq 3) in Hr by lra. eauto.
Qed.

(** the cube [-1,1]^3 cut by the plane z = 0 *)
Example plane_to_box_nonvacuous :
  let pp : V3R := V 0 0 0 in let pn : V3R := V 0 0 1 in
  let T : Pose R := P ident (V 0 0 0) in let sz : V3R := V 2 2 2 in
  dot pn pn = 1 /\ is_rotation (rot T) /\ 0 <= vx sz /\ 0 <= vy sz /\ 0 <= vz sz /\
  sd_min pp pn (box_vertices T sz) < 0 < sd_max pp pn (box_vertices T sz) /\
  exists x, plane_to_box pp pn T sz = (0, x, x, 0%nat) /\ plane_set pp pn x /\ box_of T sz x.
Proof.
  cbv zeta.
  assert (Hu : dot (V 0 0 1 : V3R) (V 0 0 1) = 1) by (vunfold; ring).
  assert (Hv : box_vertices (P ident (V 0 0 0)) (V 2 2 2)
               = [V (-1) (-1) (-1); V (-1) (-1) 1; V (-1) 1 (-1); V (-1) 1 1;
                  V 1 (-1) (-1); V 1 (-1) 1; V 1 1 (-1); V 1 1 1 : V3R]).
  { unfold box_vertices. cbn [map]. rewrite half_R. ops_R. vunfold. list_veq. }
  set (T := P ident (V 0 0 0) : Pose R). set (sz := V 2 2 2 : V3R).
  assert (S0 : 0 <= vx sz) by (cbn; lra). assert (S1 : 0 <= vy sz) by (cbn; lra).
  assert (S2 : 0 <= vz sz) by (cbn; lra).
  assert (Hne : box_vertices T sz <> []) by (unfold box_vertices; discriminate).
  assert (E : sd_min (V 0 0 0) (V 0 0 1) (box_vertices T sz) = -1 /\
              sd_max (V 0 0 0) (V 0 0 1) (box_vertices T sz) = 1).
  { unfold T, sz. rewrite Hv. eval_extremes. split; lra. }
  destruct E as (E1 & E2).
  split; [exact Hu|]. split; [exact rotation_ident|]. split; [exact S0|]. split; [exact S1|].
  split; [exact S2|]. split; [rewrite E1, E2; lra|].
  destruct (plane_to_points_crossing_result (V 0 0 0) (V 0 0 1) (box_vertices T sz) Hne) as (x & Hx & Hp);
    [rewrite E1, E2; lra|].
  exists x. split; [exact Hx|]. split; [exact Hp|].
  destruct (plane_to_box_feasible _ _ _ _ _ _ _ _ Hu S0 S1 S2 Hx) as (_ & Hh & _). exact Hh.
Qed.
