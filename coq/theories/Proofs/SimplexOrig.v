(** * The original solver's backup procedure (Model/SimplexOrig.v over [ROps]): for ALL real
      inputs of 1-4 points the returned solution is well formed --
      the ordered indices are distinct and in range, the barycentric weights are non-negative,
      sum to 1 and reproduce the returned point from the selected points IN THAT ORDER, the
      returned squared distance is the squared norm of the returned point, and the point lies
      in the hull of the selected points (hence of all points).
      ([backup_valid]; this is the weights/subset clause of C18 for the model, every arm.)

    Optimality: proved here for two points ([backup_segment_optimal], all real inputs); for three
    and four points only "no worse than every candidate tried" ([try_cand_mono],
    [try_vertex_mono]) -- missing is Johnson's theorem (the carrier of the optimum is eligible).
    Exact optimality is proved for every lattice configuration in Proofs/SimplexLattice*.v and
    refuted for small tetrahedra in Proofs/SimplexRefuted.v. *)
From Coq Require Import List NArith QArith Reals Lra Psatz Bool Lia.
From D3 Require Import Base.Ops Base.Vec Base.RVec Spec.Convex Spec.ConvexHull Model.SimplexOrig.
Import ListNotations.
Local Open Scope R_scope.

Section Valid.
  Variable Y : list V3R.

  Definition sol_valid (s : @sol R) (o : list nat) : Prop :=
    length (s_b s) = length o /\ Forall (fun i => (i < length Y)%nat) o /\ NoDup o /\
    Forall (fun w => 0 <= w) (s_b s) /\ sum (s_b s) = 1 /\
    s_v s = comb (s_b s) (map (pt Y) o) /\ s_d2 s = dot (s_v s) (s_v s).

  Lemma from_vertex_valid vi : (vi < length Y)%nat -> sol_valid (from_vertex Y vi (t Y vi vi)) [vi].
  Proof.
    intros H. unfold sol_valid, from_vertex. cbn [s_b s_v s_d2 length map comb sum].
    split; [reflexivity|]. split; [constructor; [exact H|constructor]|]. split; [constructor; [intros []|constructor]|].
    split; [constructor; [cbn; lra|constructor]|]. split; [cbn; lra|]. split; [|reflexivity].
    cbn [one ROps]. generalize (pt Y vi). intros p. vsimp. f_equal; ring.
  Qed.

  Lemma from_line_segment_valid i j a b :
    0 < a -> 0 < b -> (i < length Y)%nat -> (j < length Y)%nat -> i <> j ->
    sol_valid (from_line_segment Y i j a b) [i; j].
  Proof.
    intros Ha Hb Hi Hj Hij. unfold sol_valid, from_line_segment.
    cbn [s_b s_v s_d2 length map comb sum add sub mul div one ROps].
    assert (Hs : 0 < a + b) by lra.
    assert (H0 : 0 <= a / (a + b)) by (apply Rmult_le_pos; [lra|left; apply Rinv_0_lt_compat; lra]).
    assert (H1 : a / (a + b) <= 1).
    { apply (Rmult_le_reg_r (a + b)); [lra|]. unfold Rdiv. rewrite Rmult_assoc, Rinv_l; lra. }
    split; [reflexivity|]. split; [constructor; [exact Hi|constructor; [exact Hj|constructor]]|].
    split; [constructor; [simpl; intuition|constructor; [intros []|constructor]]|].
    split; [constructor; [exact H0|constructor; [lra|constructor]]|]. split; [lra|]. split; [|reflexivity].
    generalize (pt Y i) (pt Y j). intros p q. vsimp. f_equal; ring.
  Qed.

  Lemma from_face_valid i j k a b c :
    0 < a -> 0 < b -> 0 < c -> (i < length Y)%nat -> (j < length Y)%nat -> (k < length Y)%nat ->
    i <> j -> i <> k -> j <> k ->
    sol_valid (from_face Y i j k a b c) [i; j; k].
  Proof.
    intros Ha Hb Hc Hi Hj Hk Hij Hik Hjk. unfold sol_valid, from_face.
    cbn [s_b s_v s_d2 length map comb sum add sub mul div one ROps].
    assert (Hs : 0 < a + b + c) by lra.
    assert (Hinv : 0 < / (a + b + c)) by (apply Rinv_0_lt_compat; lra).
    assert (H0 : 0 <= a / (a + b + c)) by (apply Rmult_le_pos; lra).
    assert (H1 : 0 <= b / (a + b + c)) by (apply Rmult_le_pos; lra).
    assert (H2 : 1 - (a / (a + b + c) + b / (a + b + c)) = c / (a + b + c)) by (field; lra).
    assert (H3 : 0 <= c / (a + b + c)) by (apply Rmult_le_pos; lra).
    split; [reflexivity|]. split; [constructor; [exact Hi|constructor; [exact Hj|constructor; [exact Hk|constructor]]]|].
    split; [constructor; [simpl; intuition|constructor; [simpl; intuition|constructor; [intros []|constructor]]]|].
    split; [constructor; [exact H0|constructor; [exact H1|constructor; [lra|constructor]]]|]. split; [lra|]. split; [|reflexivity].
    generalize (pt Y i) (pt Y j) (pt Y k). intros p q r. vsimp. f_equal; ring.
  Qed.

  Lemma from_tetrahedron_valid c0 c1 c2 c3 :
    0 < c0 -> 0 < c1 -> 0 < c2 -> 0 < c3 -> length Y = 4%nat ->
    sol_valid (from_tetrahedron Y c0 c1 c2 c3) [0; 1; 2; 3]%nat.
  Proof.
    intros H0 H1 H2 H3 HL. unfold sol_valid, from_tetrahedron.
    cbn [s_b s_v s_d2 length map comb sum add sub mul div one ROps].
    assert (Hs : 0 < c0 + c1 + c2 + c3) by lra.
    assert (Hinv : 0 < / (c0 + c1 + c2 + c3)) by (apply Rinv_0_lt_compat; lra).
    split; [reflexivity|]. split; [rewrite HL; repeat (constructor; [lia|]); constructor|].
    split; [repeat (constructor; [simpl; intuition; discriminate|]); constructor|].
    split; [constructor; [apply Rmult_le_pos; lra|constructor; [apply Rmult_le_pos; lra|constructor; [apply Rmult_le_pos; lra|constructor; [apply Rmult_le_pos; lra|constructor]]]]|].
    split; [field; lra|]. split; [|reflexivity].
    generalize (pt Y 0) (pt Y 1) (pt Y 2) (pt Y 3). intros p q r u. vsimp. f_equal; ring.
  Qed.

  Definition st_valid (st : @bstate R) : Prop :=
    let '(n, s, o, _) := st in n = length o /\ sol_valid s o.

  Lemma try_cand_valid dv c e f o st :
    (e = true -> sol_valid (f tt) o) -> st_valid st -> st_valid (try_cand dv c e f o st).
  Proof.
    destruct st as [[[n s] o0] tr]. intros Hc [Hn Hv]. unfold try_cand.
    destruct e; [|split; auto].
    destruct (ltb _ _); split; auto.
  Qed.

  Lemma try_vertex_valid dv c vi st :
    (vi < length Y)%nat -> st_valid st -> st_valid (try_vertex Y dv c vi (t Y vi vi) st).
  Proof.
    destruct st as [[[n s] o0] tr]. intros Hvi [Hn Hv]. unfold try_vertex.
    destruct (ltb _ _); split; auto. apply from_vertex_valid; auto.
  Qed.

  Lemma finish_valid st : st_valid st -> sol_valid (b_sol (finish st)) (b_ord (finish st)).
  Proof. destruct st as [[[n s] o] tr]. intros [_ H]. exact H. Qed.

  (** eligibility tests as they appear in the model *)
  Lemma elig2 x y : negb (Rleb x 0 || Rleb y 0) = true -> 0 < x /\ 0 < y.
  Proof.
    rewrite negb_true_iff, orb_false_iff. intros [H1 H2]. apply Rleb_false in H1, H2. auto.
  Qed.
  Lemma elig3 x y z : negb (Rleb x 0 || Rleb y 0 || Rleb z 0) = true -> 0 < x /\ 0 < y /\ 0 < z.
  Proof.
    rewrite negb_true_iff, !orb_false_iff. intros [[H1 H2] H3]. apply Rleb_false in H1, H2, H3. auto.
  Qed.
  Lemma eps_o_pos : 0 < @EPSILON_O R ROps.
  Proof.
    unfold EPSILON_O. cbn [cst mul ROps]. unfold Q2R. cbn [Qnum Qden]. lra.
  Qed.
  Lemma elig4 x y z w (e : R) : 0 < e -> negb (Rleb x e || Rleb y e || Rleb z e || Rleb w e) = true ->
    0 < x /\ 0 < y /\ 0 < z /\ 0 < w.
  Proof.
    intros He. rewrite negb_true_iff, !orb_false_iff. intros [[[H1 H2] H3] H4].
    apply Rleb_false in H1, H2, H3, H4. repeat split; lra.
  Qed.
End Valid.

Ltac cand_side HL :=
  match goal with
  | |- _ = true -> sol_valid _ (from_line_segment _ _ _ _ _) _ =>
    let H := fresh in intros H; apply elig2 in H; destruct H;
    apply from_line_segment_valid; auto; try (rewrite HL; lia); try discriminate
  | |- _ = true -> sol_valid _ (from_face _ _ _ _ _ _ _) _ =>
    let H := fresh in intros H; apply elig3 in H; destruct H as (? & ? & ?);
    apply from_face_valid; auto; try (rewrite HL; lia); try discriminate
  | |- _ = true -> sol_valid _ (from_tetrahedron _ _ _ _ _) _ =>
    let H := fresh in intros H; apply (elig4 _ _ _ _ _ eps_o_pos) in H; destruct H as (? & ? & ? & ?);
    apply from_tetrahedron_valid; auto
  end.

Theorem backup_valid (Y : list V3R) r :
  backup_procedure Y = Some r -> sol_valid Y (b_sol r) (b_ord r).
Proof.
  unfold backup_procedure.
  destruct (length Y) as [|[|[|[|[|n]]]]] eqn:HL; try discriminate; intros H; injection H as <-.
  - (* one point *)
    cbn [b_sol b_ord]. apply from_vertex_valid. lia.
  - (* two *)
    unfold backup_procedure_line_segment. cbv zeta. cbn [leb zero sub ROps].
    apply finish_valid. apply try_vertex_valid; [lia|].
    apply try_cand_valid; [cand_side HL|].
    split; [reflexivity|apply from_vertex_valid; lia].
  - (* three *)
    unfold backup_procedure_face. cbv zeta. cbn [leb zero sub ROps].
    apply finish_valid.
    apply try_cand_valid; [cand_side HL|].
    apply try_vertex_valid; [lia|]. apply try_vertex_valid; [lia|].
    apply try_cand_valid; [cand_side HL|].
    apply try_cand_valid; [cand_side HL|].
    apply try_cand_valid; [cand_side HL|].
    split; [reflexivity|apply from_vertex_valid; lia].
  - (* four *)
    unfold backup_procedure_tetrahedron. cbv zeta. cbn [leb zero sub ROps].
    match goal with |- context [try_cand ?dv 13%N ?e ?f ?o ?st'] => set (ST := try_cand dv 13%N e f o st') end.
    assert (Hst : st_valid Y ST).
    { unfold ST.
      apply try_cand_valid; [cand_side HL|].
      apply try_cand_valid; [cand_side HL|].
      apply try_cand_valid; [cand_side HL|].
      apply try_vertex_valid; [lia|]. apply try_vertex_valid; [lia|]. apply try_vertex_valid; [lia|].
      apply try_cand_valid; [cand_side HL|].
      apply try_cand_valid; [cand_side HL|].
      apply try_cand_valid; [cand_side HL|].
      apply try_cand_valid; [cand_side HL|].
      apply try_cand_valid; [cand_side HL|].
      apply try_cand_valid; [cand_side HL|].
      apply try_cand_valid; [cand_side HL|].
      split; [reflexivity|apply from_vertex_valid; lia]. }
    clearbody ST. destruct ST as [[[n s] o] tr].
    destruct Hst as [Hn Hv].
    match goal with |- context [if negb ?e then _ else _] => destruct (negb e) eqn:He end.
    + match goal with |- context [if ?c then _ else _] => destruct c end.
      * cbn [finish b_sol b_ord]. revert He. cand_side HL.
      * cbn [finish b_sol b_ord]. exact Hv.
    + cbn [finish b_sol b_ord]. exact Hv.
Qed.

(** consequences in the words of the property *)
Corollary backup_in_hull (Y : list V3R) r :
  backup_procedure Y = Some r ->
  conv_hull (map (pt Y) (b_ord r)) (s_v (b_sol r)) /\ conv_hull Y (s_v (b_sol r)).
Proof.
  intros H. destruct (backup_valid Y r H) as (Hl & Hr & Hd & Hn & Hs & Hv & _).
  assert (H1 : conv_hull (map (pt Y) (b_ord r)) (s_v (b_sol r))).
  { exists (s_b (b_sol r)). rewrite map_length. repeat split; auto. }
  split; auto. revert H1. apply conv_hull_incl.
  intros p Hp. apply in_map_iff in Hp. destruct Hp as (i & <- & Hi).
  rewrite Forall_forall in Hr. specialize (Hr i Hi). unfold pt. apply nth_In. exact Hr.
Qed.

(** ** every step can only decrease the squared distance, and ends up no worse than what it tried *)
Definition st_d2 (st : @bstate R) : R := let '(_, s, _, _) := st in s_d2 s.

Lemma try_cand_mono dv c e f o st :
  st_d2 (try_cand dv c e f o st) <= st_d2 st /\
  (e = true -> st_d2 (try_cand dv c e f o st) <= s_d2 (f tt)).
Proof.
  destruct st as [[[n s] o0] tr]. unfold try_cand. destruct e.
  - cbn [ltb ROps]. destruct (Rltb (s_d2 (f tt)) (s_d2 s)) eqn:E;
      [apply Rltb_true in E|apply Rltb_false in E]; cbn [st_d2]; split; intros; lra.
  - cbn [st_d2]. split; [lra|discriminate].
Qed.

Lemma try_vertex_mono (Y : list V3R) dv c vi tvv st :
  st_d2 (try_vertex Y dv c vi tvv st) <= st_d2 st /\ st_d2 (try_vertex Y dv c vi tvv st) <= tvv.
Proof.
  destruct st as [[[n s] o0] tr]. unfold try_vertex. cbn [ltb ROps].
  destruct (Rltb tvv (s_d2 s)) eqn:E; [apply Rltb_true in E|apply Rltb_false in E]; cbn [st_d2 from_vertex s_d2]; lra.
Qed.

(** ** two points: the backup procedure returns a minimum-norm point of the segment, all real inputs *)
Theorem backup_segment_optimal (y0 y1 : V3R) :
  let r := @backup_procedure_line_segment R ROps [y0; y1] in
  is_min_norm [y0; y1] (s_v (b_sol r)).
Proof.
  unfold backup_procedure_line_segment. cbv zeta.
  unfold t, pt. cbn [nth]. cbn [leb zero sub ROps].
  set (t00 := dot y0 y0). set (t10 := dot y1 y0). set (t11 := dot y1 y1).
  set (d12 := t00 - t10). set (d02 := t11 - t10).
  assert (H0in : conv_hull [y0; y1] y0) by (apply conv_hull_In; simpl; auto).
  assert (H1in : conv_hull [y0; y1] y1) by (apply conv_hull_In; simpl; auto).
  assert (E01 : dot y0 y1 = t10) by (unfold t10; apply dot_comm).
  destruct (negb (Rleb d02 0 || Rleb d12 0)) eqn:El.
  - (* interior candidate *)
    apply elig2 in El. destruct El as [Hd02 Hd12].
    unfold try_cand at 1. 
    set (sd := from_line_segment [y0; y1] 0 1 d02 d12).
    assert (Hs : 0 < d02 + d12) by lra.
    set (b0 := d02 / (d02 + d12)). set (b1 := 1 - b0).
    assert (Hb1 : b1 = d12 / (d02 + d12)) by (unfold b1, b0; field; lra).
    assert (Hb0p : 0 < b0) by (unfold b0; apply Rmult_lt_0_compat; [lra|apply Rinv_0_lt_compat; lra]).
    assert (Hb1p : 0 < b1) by (rewrite Hb1; apply Rmult_lt_0_compat; [lra|apply Rinv_0_lt_compat; lra]).
    set (v := vadd (vscale b0 y0) (vscale b1 y1)).
    assert (Hsd : sd = Sol v (dot v v) [b0; b1]) by reflexivity.
    assert (Hv0 : dot v y0 = b0 * t00 + b1 * t10) by (unfold v; rewrite dot_add_l, !dot_scale_l; reflexivity).
    assert (Hv1 : dot v y1 = b0 * t10 + b1 * t11) by (unfold v; rewrite dot_add_l, !dot_scale_l, E01; reflexivity).
    assert (Heq : dot v y0 = dot v y1).
    { rewrite Hv0, Hv1, Hb1. unfold b0, d12, d02. field. unfold d02, d12 in Hs. lra. }
    assert (Hvv : dot v v = dot v y0).
    { unfold v at 2. rewrite dot_add_r, !dot_scale_r. rewrite <- Heq. unfold b1. ring. }
    assert (Hmin : is_min_norm [y0; y1] v).
    { apply is_min_norm_of_kkt; [apply conv_hull_2; [lra|lra|unfold b1; lra]|].
      intros y [<-|[<-|[]]]; lra. }
    (* |y0|^2 - |v|^2 = b1^2 |y0 - y1|^2 > 0, |y1|^2 - |v|^2 = b0^2 |y0 - y1|^2 > 0 *)
    assert (Hlen : d02 + d12 = dot (vsub y0 y1) (vsub y0 y1)).
    { unfold d02, d12, t00, t10, t11. vsimp. ring. }
    assert (G0 : dot v v < t00).
    { assert (t00 - dot v v = b1 * b1 * (d02 + d12)).
      { rewrite Hvv, Hv0. unfold b1 at 1. unfold d12, d02. unfold b1, b0, d02, d12. field. unfold d02, d12 in Hs. lra. }
      assert (0 < b1 * b1 * (d02 + d12)) by (apply Rmult_lt_0_compat; [nra|lra]). lra. }
    assert (G1 : dot v v < t11).
    { assert (t11 - dot v v = b0 * b0 * (d02 + d12)).
      { rewrite Hvv, Heq, Hv1. unfold b1, b0, d02, d12. field. unfold d02, d12 in Hs. lra. }
      assert (0 < b0 * b0 * (d02 + d12)) by (apply Rmult_lt_0_compat; [nra|lra]). lra. }
    rewrite Hsd. cbn [s_d2 from_vertex ltb ROps].
    replace (Rltb (dot v v) t00) with true by (symmetry; apply Rltb_true; exact G0).
    unfold try_vertex. cbn [s_d2 ltb ROps].
    replace (Rltb t11 (dot v v)) with false by (symmetry; apply Rltb_false; lra).
    cbn [finish b_sol s_v]. exact Hmin.
  - (* no interior candidate *)
    rewrite negb_false_iff, orb_true_iff in El.
    unfold try_cand at 1. unfold try_vertex. cbn [from_vertex s_d2 ltb ROps].
    destruct El as [El|El]; apply Rleb_true in El.
    + (* d02 <= 0: y1 satisfies the variational inequality *)
      assert (Hmin1 : is_min_norm [y0; y1] y1).
      { apply is_min_norm_of_kkt; auto. intros y [<-|[<-|[]]]; [|lra]. fold t11. rewrite (dot_comm y1 y0), E01. unfold d02 in El. lra. }
      destruct (Rltb t11 t00) eqn:E; [apply Rltb_true in E|apply Rltb_false in E]; cbn [finish b_sol]; unfold from_vertex, pt; cbn [s_v nth].
      * exact Hmin1.
      * split; auto. intros x Hx. destruct Hmin1 as [_ Hm]. specialize (Hm x Hx).
        assert (norm y0 <= norm y1) by (apply norm_le_of_sq; unfold t00, t11 in E; lra). lra.
    + (* d12 <= 0: y0 satisfies the variational inequality *)
      assert (Hmin0 : is_min_norm [y0; y1] y0).
      { apply is_min_norm_of_kkt; auto. intros y [<-|[<-|[]]]; [lra|]. fold t00. rewrite E01. unfold d12 in El. lra. }
      destruct (Rltb t11 t00) eqn:E; [apply Rltb_true in E|apply Rltb_false in E]; cbn [finish b_sol]; unfold from_vertex, pt; cbn [s_v nth].
      * exfalso. destruct Hmin0 as [_ Hm]. specialize (Hm y1 H1in).
        pose proof (norm_sq y0). pose proof (norm_sq y1). pose proof (norm_nonneg y0). pose proof (norm_nonneg y1).
        unfold t00, t11 in E. nra.
      * exact Hmin0.
Qed.
