(** * make_halfplanes / intersect_halfplanes / compute_contact_polygon of Model/Hydro.v (C15)

    Generic in the arithmetic (any [Ops F], in particular binary64):
    - [halfplanes_compact]: [make_halfplanes] returns exactly the valid rows, in order, all
      written (the property the F14 defect violated);
    - [intersect_halfplanes_sound] / [intersect_halfplanes_complete]: the returned points are
      exactly the pairwise intersections (i < j, not parallel) that no third halfplane puts
      outside, in loop order; no index error as long as at most n(n-1)/2 points are valid.
    Over the reals:
    - [vertex_on_lines], [vertex_feasible]: such a point lies on both lines and satisfies every
      other halfplane up to EPSILON;
    - [polygon_vertices_on_plane_in_faces]: every vertex of the polygon returned by
      [compute_contact_polygon] lies on the contact plane exactly and has barycentric coordinate
      >= -EPSILON w.r.t. every face of both tetrahedra that is not parallel to the plane. *)
From Coq Require Import Reals Lra List Bool Arith Lia QArith.
From D3 Require Import Base.Ops Base.Vec Base.RVec Base.RVec2 Model.AabbTree Model.Hydro Proofs.HydroPlane.
Import ListNotations.
Local Open Scope nat_scope.

Section Generic.
  Context {F : Type} {O : Ops F}.

  Definition valid_rows (x y pp : V3 F) (X : list (V4 F)) : list (HP F) :=
    flat_map (fun Xi => match hp_row x y pp Xi with Some r => [r] | None => [] end) X.

  Lemma valid_rows_length x y pp X : length (valid_rows x y pp X) <= length X.
  Proof.
    induction X as [|Xi X IH]; cbn [valid_rows flat_map length]; [lia|].
    fold (valid_rows x y pp X). rewrite app_length. destruct (hp_row x y pp Xi); cbn [length]; lia.
  Qed.

  Lemma set_nth_app_repeat {A} (l : list A) (x d : A) (k : nat) :
    set_nth (l ++ repeat d (S k)) (length l) x = (l ++ [x]) ++ repeat d k.
  Proof.
    induction l as [|a l IH]; cbn [app length set_nth repeat]; [reflexivity|].
    f_equal. exact IH.
  Qed.

  Lemma hp_fold (x y pp : V3 F) (X : list (V4 F)) : forall (acc : list (HP F)) (k : nat),
    length X <= k ->
    fold_left (hp_step x y pp) X (Ok (map Some acc ++ repeat None k, length acc)) =
    Ok (map Some (acc ++ valid_rows x y pp X) ++ repeat None (k - length (valid_rows x y pp X)),
        length (acc ++ valid_rows x y pp X)).
  Proof.
    induction X as [|Xi X IH]; intros acc k Hk; cbn [fold_left valid_rows flat_map].
    - rewrite app_nil_r, Nat.sub_0_r. reflexivity.
    - fold (valid_rows x y pp X). cbn [length] in Hk.
      unfold hp_step at 2. cbn [bind].
      destruct (hp_row x y pp Xi) as [row|] eqn:Hrow.
      + destruct k as [|k]; [lia|].
        unfold upd. rewrite app_length, map_length, repeat_length.
        replace (length acc <? length acc + S k) with true by (symmetry; apply Nat.ltb_lt; lia).
        cbn [bind].
        replace (length acc) with (length (map (@Some (HP F)) acc)) at 1 by apply map_length.
        rewrite set_nth_app_repeat.
        replace (map Some acc ++ [Some row]) with (map (@Some (HP F)) (acc ++ [row])) by (rewrite map_app; reflexivity).
        replace (S (length acc)) with (length (acc ++ [row])) by (rewrite app_length; cbn; lia).
        rewrite IH by lia. rewrite <- !app_assoc. cbn [app length]. reflexivity.
      + rewrite IH by lia. cbn [app]. reflexivity.
  Qed.

  (** F14: the returned array consists of the valid halfplanes, in order, every row written *)
  Theorem halfplanes_compact (X : list (V4 F)) (pp x y : V3 F) :
    length X <= 8 ->
    make_halfplanes X pp x y = Ok (map Some (valid_rows x y pp X)).
  Proof.
    intros HX. unfold make_halfplanes.
    pose proof (hp_fold x y pp X [] 8 HX) as H. cbn [map app length] in H. rewrite H. cbn [bind fst snd].
    rewrite firstn_app, firstn_all2 by (rewrite map_length; lia).
    rewrite map_length, Nat.sub_diag. cbn [firstn]. rewrite app_nil_r. reflexivity.
  Qed.

  Lemma all_some_map {A} (l : list A) : all_some (map Some l) = Ok l.
  Proof. induction l as [|a l IH]; cbn [map all_some]; [reflexivity|]. rewrite IH. reflexivity. Qed.

  (** ** intersect_halfplanes *)
  (** p is the intersection of rows i < j and no other row has it outside *)
  Definition is_vertex (hs : list (HP F)) (p : V2 F) : Prop :=
    exists i j hi hj, i < j /\ nth_error hs i = Some hi /\ nth_error hs j = Some hj /\
      intersect_two_halfplanes hi hj = Some p /\
      forall k hk, nth_error hs k = Some hk -> k <> i -> k <> j -> point_outside_of_halfplane hk p = false.

  Lemma valid_from_spec (i j : nat) (p : V2 F) : forall (hs : list (HP F)) (k : nat),
    valid_from hs k i j p = true <->
    forall idx hk, nth_error hs idx = Some hk -> k + idx <> i -> k + idx <> j -> point_outside_of_halfplane hk p = false.
  Proof.
    induction hs as [|h hs IH]; intros k; cbn [valid_from].
    - split; [|reflexivity]. intros _ [|idx] hk H; discriminate.
    - destruct (negb (k =? i) && negb (k =? j) && point_outside_of_halfplane h p) eqn:Hc.
      + split; [discriminate|]. intros H. exfalso.
        apply andb_true_iff in Hc as [Hc Ho]. apply andb_true_iff in Hc as [Hi Hj].
        apply negb_true_iff, Nat.eqb_neq in Hi. apply negb_true_iff, Nat.eqb_neq in Hj.
        specialize (H 0 h eq_refl). rewrite Nat.add_0_r in H. rewrite H in Ho by assumption. discriminate.
      + rewrite IH. split.
        * intros H [|idx] hk Hn Hi Hj.
          -- injection Hn as <-. rewrite Nat.add_0_r in Hi, Hj.
             apply Nat.eqb_neq in Hi. apply Nat.eqb_neq in Hj. rewrite Hi, Hj in Hc. cbn in Hc. exact Hc.
          -- apply (H idx hk Hn); lia.
        * intros H idx hk Hn Hi Hj. apply (H (S idx) hk Hn); lia.
  Qed.

  Lemma inner_loop_sound (hs : list (HP F)) (cap i : nat) (hi : HP F) :
    nth_error hs i = Some hi ->
    forall (js : list (HP F)) (j : nat) (acc r : list (V2 F)),
      i < j -> (forall idx hj, nth_error js idx = Some hj -> nth_error hs (j + idx) = Some hj) ->
      Forall (is_vertex hs) acc -> inner_loop hs cap i hi js j acc = Ok r -> Forall (is_vertex hs) r.
  Proof.
    intros Hi. induction js as [|hj js IH]; intros j acc r Hij Hjs Hacc; cbn [inner_loop].
    - intros H. injection H as <-. exact Hacc.
    - assert (Hjs' : forall idx h, nth_error js idx = Some h -> nth_error hs (S j + idx) = Some h).
      { intros idx h Hn. specialize (Hjs (S idx) h Hn). rewrite <- Hjs. f_equal. lia. }
      destruct (intersect_two_halfplanes hi hj) as [p|] eqn:Hp; [|apply IH; auto; lia].
      destruct (valid_from hs 0 i j p) eqn:Hv; [|apply IH; auto; lia].
      destruct (length acc <? cap); [|discriminate].
      apply IH; auto; try lia.
      apply Forall_app. split; [exact Hacc|]. constructor; [|constructor].
      exists i, j, hi, hj. repeat split; auto.
      + specialize (Hjs 0 hj eq_refl). rewrite Nat.add_0_r in Hjs. exact Hjs.
      + intros k hk Hk Hki Hkj. rewrite valid_from_spec in Hv. apply (Hv k hk Hk); cbn; assumption.
  Qed.

  Lemma outer_loop_sound (hs : list (HP F)) (cap : nat) :
    forall (rest : list (HP F)) (i : nat) (acc r : list (V2 F)),
      (forall idx h, nth_error rest idx = Some h -> nth_error hs (i + idx) = Some h) ->
      Forall (is_vertex hs) acc -> outer_loop hs cap rest i acc = Ok r -> Forall (is_vertex hs) r.
  Proof.
    induction rest as [|hi rest IH]; intros i acc r Hrest Hacc; cbn [outer_loop].
    - intros H. injection H as <-. exact Hacc.
    - destruct (inner_loop hs cap i hi rest (S i) acc) as [acc'|e] eqn:Hin; cbn [bind]; [|discriminate].
      assert (Hi : nth_error hs i = Some hi).
      { specialize (Hrest 0 hi eq_refl). rewrite Nat.add_0_r in Hrest. exact Hrest. }
      assert (Hrest' : forall idx h, nth_error rest idx = Some h -> nth_error hs (S i + idx) = Some h).
      { intros idx h Hn. specialize (Hrest (S idx) h Hn). rewrite <- Hrest. f_equal. lia. }
      apply IH; auto.
      apply (inner_loop_sound hs cap i hi Hi rest (S i) acc acc'); auto.
  Qed.

  Theorem intersect_halfplanes_sound (hs : list (HP F)) (pts : list (V2 F)) :
    intersect_halfplanes hs = Ok pts -> Forall (is_vertex hs) pts /\ length pts < hp_cap (length hs).
  Proof.
    unfold intersect_halfplanes.
    destruct (outer_loop hs (hp_cap (length hs)) hs 0 []) as [r|e] eqn:Ho; cbn [bind]; [|discriminate].
    destruct (length r <? hp_cap (length hs)) eqn:Hl; [|discriminate].
    intros H. injection H as <-. split.
    - apply (outer_loop_sound hs (hp_cap (length hs)) hs 0 [] r); auto.
    - apply Nat.ltb_lt. exact Hl.
  Qed.

  (** completeness: every pair i < j whose intersection no third row puts outside is returned *)
  Lemma inner_loop_incl (hs : list (HP F)) (cap i : nat) (hi : HP F) :
    forall (js : list (HP F)) (j : nat) (acc r : list (V2 F)),
      inner_loop hs cap i hi js j acc = Ok r -> forall p, In p acc -> In p r.
  Proof.
    induction js as [|hj js IH]; intros j acc r; cbn [inner_loop].
    - intros H. injection H as <-. auto.
    - destruct (intersect_two_halfplanes hi hj) as [q|]; [|apply IH].
      destruct (valid_from hs 0 i j q); [|apply IH].
      destruct (length acc <? cap); [|discriminate].
      intros H p Hp. apply (IH _ _ _ H). apply in_or_app. now left.
  Qed.

  Lemma inner_loop_complete (hs : list (HP F)) (cap i : nat) (hi : HP F) :
    forall (js : list (HP F)) (j : nat) (acc r : list (V2 F)),
      inner_loop hs cap i hi js j acc = Ok r ->
      forall idx hj p, nth_error js idx = Some hj -> intersect_two_halfplanes hi hj = Some p ->
                       valid_from hs 0 i (j + idx) p = true -> In p r.
  Proof.
    induction js as [|hj0 js IH]; intros j acc r; cbn [inner_loop].
    - intros _ [|idx] hj p H; discriminate.
    - intros H [|idx] hj p Hn Hp Hv.
      + injection Hn as <-. rewrite Nat.add_0_r in Hv. rewrite Hp, Hv in H.
        destruct (length acc <? cap); [|discriminate].
        apply (inner_loop_incl hs cap i hi js (S j) _ r H). apply in_or_app. right. now left.
      + cbn [nth_error] in Hn. replace (j + S idx) with (S j + idx) in Hv by lia.
        destruct (intersect_two_halfplanes hi hj0) as [q|]; [|eapply IH; eauto].
        destruct (valid_from hs 0 i j q); [|eapply IH; eauto].
        destruct (length acc <? cap); [|discriminate]. eapply IH; eauto.
  Qed.

  Lemma outer_loop_incl (hs : list (HP F)) (cap : nat) :
    forall (rest : list (HP F)) (i : nat) (acc r : list (V2 F)),
      outer_loop hs cap rest i acc = Ok r -> forall p, In p acc -> In p r.
  Proof.
    induction rest as [|hi rest IH]; intros i acc r; cbn [outer_loop].
    - intros H. injection H as <-. auto.
    - destruct (inner_loop hs cap i hi rest (S i) acc) as [acc'|e] eqn:Hin; cbn [bind]; [|discriminate].
      intros H p Hp. apply (IH _ _ _ H). eapply inner_loop_incl; eauto.
  Qed.

  Lemma outer_loop_complete (hs : list (HP F)) (cap : nat) :
    forall (rest : list (HP F)) (i0 : nat) (acc r : list (V2 F)),
      outer_loop hs cap rest i0 acc = Ok r ->
      forall a b hi hj p, nth_error rest a = Some hi -> nth_error rest (a + S b) = Some hj ->
                          intersect_two_halfplanes hi hj = Some p ->
                          valid_from hs 0 (i0 + a) (i0 + a + S b) p = true -> In p r.
  Proof.
    induction rest as [|h rest IH]; intros i0 acc r; cbn [outer_loop].
    - intros _ [|a] b hi hj p H; discriminate.
    - destruct (inner_loop hs cap i0 h rest (S i0) acc) as [acc'|e] eqn:Hin; cbn [bind]; [|discriminate].
      intros H [|a] b hi hj p Ha Hb Hp Hv.
      + injection Ha as <-. cbn [Nat.add nth_error] in Hb. rewrite Nat.add_0_r in Hv.
        apply (outer_loop_incl hs cap rest (S i0) acc' r H).
        apply (inner_loop_complete hs cap i0 h rest (S i0) acc acc' Hin b hj p Hb Hp).
        replace (S i0 + b) with (i0 + S b) by lia. exact Hv.
      + cbn [nth_error Nat.add] in Ha, Hb.
        apply (IH (S i0) acc' r H a b hi hj p Ha Hb Hp).
        replace (S i0 + a) with (i0 + S a) by lia. exact Hv.
  Qed.

  Theorem intersect_halfplanes_complete (hs : list (HP F)) (pts : list (V2 F)) :
    intersect_halfplanes hs = Ok pts -> forall p, is_vertex hs p -> In p pts.
  Proof.
    unfold intersect_halfplanes.
    destruct (outer_loop hs (hp_cap (length hs)) hs 0 []) as [r|e] eqn:Ho; cbn [bind]; [|discriminate].
    destruct (length r <? hp_cap (length hs)); [|discriminate].
    intros H p (i & j & hi & hj & Hij & Hi & Hj & Hp & Hall). injection H as <-.
    apply (outer_loop_complete hs (hp_cap (length hs)) hs 0 [] r Ho i (j - S i) hi hj p Hi).
    - replace (i + S (j - S i)) with j by lia. exact Hj.
    - exact Hp.
    - cbn [Nat.add]. replace (i + S (j - S i)) with j by lia.
      apply valid_from_spec. intros idx hk Hk Hki Hkj. cbn [Nat.add] in Hki, Hkj. apply (Hall idx hk Hk Hki Hkj).
  Qed.

  (** With one row per pair of halfplanes (/repo f6c3926) the point buffer can never overflow and the
      final assertion can never fail: [intersect_halfplanes] is total (index safe). *)
  Fixpoint npairs {A} (l : list A) : nat := match l with [] => 0 | _ :: t => length t + npairs t end.

  Lemma npairs_double {A} (l : list A) : 2 * npairs l = length l * (length l - 1).
  Proof.
    induction l as [|a l IH]; cbn [npairs length]; [reflexivity|].
    destruct l as [|b l]; [cbn; lia|].
    cbn [length] in *. replace (S (length l) - 1) with (length l) in IH by lia.
    replace (S (S (length l)) - 1) with (S (length l)) by lia. nia.
  Qed.
  Lemma npairs_cap {A} (l : list A) : npairs l < hp_cap (length l).
  Proof.
    unfold hp_cap. rewrite <- npairs_double.
    replace (2 * npairs l) with (npairs l * 2) by lia. rewrite Nat.div_mul by lia. lia.
  Qed.

  Lemma inner_loop_total (hs : list (HP F)) (cap i : nat) (hi : HP F) :
    forall (js : list (HP F)) (j : nat) (acc : list (V2 F)),
      length acc + length js < cap ->
      exists r, inner_loop hs cap i hi js j acc = Ok r /\ length r <= length acc + length js.
  Proof.
    induction js as [|hj js IH]; intros j acc Hc; cbn [inner_loop length] in *.
    - exists acc. split; [reflexivity|lia].
    - destruct (intersect_two_halfplanes hi hj) as [p|].
      2:{ destruct (IH (S j) acc) as (r & Hr & Hl); [lia|]. exists r. split; [exact Hr|lia]. }
      destruct (valid_from hs 0 i j p).
      2:{ destruct (IH (S j) acc) as (r & Hr & Hl); [lia|]. exists r. split; [exact Hr|lia]. }
      replace (length acc <? cap) with true by (symmetry; apply Nat.ltb_lt; lia).
      destruct (IH (S j) (acc ++ [p])) as (r & Hr & Hl); [rewrite app_length; cbn; lia|].
      exists r. split; [exact Hr|]. rewrite app_length in Hl. cbn in Hl. lia.
  Qed.

  Lemma outer_loop_total (hs : list (HP F)) (cap : nat) :
    forall (rest : list (HP F)) (i : nat) (acc : list (V2 F)),
      length acc + npairs rest < cap ->
      exists r, outer_loop hs cap rest i acc = Ok r /\ length r <= length acc + npairs rest.
  Proof.
    induction rest as [|hi rest IH]; intros i acc Hc; cbn [outer_loop npairs] in *.
    - exists acc. split; [reflexivity|lia].
    - destruct (inner_loop_total hs cap i hi rest (S i) acc) as (acc' & Hin & Hl); [lia|].
      rewrite Hin. cbn [bind].
      destruct (IH (S i) acc') as (r & Hr & Hl'); [lia|].
      exists r. split; [exact Hr|lia].
  Qed.

  Theorem intersect_halfplanes_total (hs : list (HP F)) :
    exists pts, intersect_halfplanes hs = Ok pts /\ length pts <= npairs hs.
  Proof.
    unfold intersect_halfplanes. pose proof (npairs_cap hs) as Hc.
    destruct (outer_loop_total hs (hp_cap (length hs)) hs 0 []) as (r & Hr & Hl); [cbn; exact Hc|].
    rewrite Hr. cbn [bind]. cbn [length] in Hl.
    replace (length r <? hp_cap (length hs)) with true by (symmetry; apply Nat.ltb_lt; lia).
    exists r. split; [reflexivity|lia].
  Qed.

  (** membership is preserved by the ordering and de-duplication steps *)
  Lemma permute_in (pts : list (V2 F)) : forall perm r, permute pts perm = Ok r -> forall v, In v r -> In v pts.
  Proof.
    induction perm as [|i perm IH]; intros r; cbn [permute].
    - intros H. injection H as <-. intros v [].
    - unfold get. destruct (nth_error pts i) as [p|] eqn:Hp; cbn [bind]; [|discriminate].
      destruct (permute pts perm) as [r'|] eqn:Hr; cbn [bind]; [|discriminate].
      intros H. injection H as <-. intros v [<-|Hv].
      + eapply nth_error_In; eauto.
      + eapply IH; eauto.
  Qed.
  Lemma filter_unique_from_in : forall (pts : list (V2 F)) prev v, In v (filter_unique_from prev pts) -> In v pts.
  Proof.
    induction pts as [|p pts IH]; intros prev v; cbn [filter_unique_from]; [auto|].
    destruct (_ <? _)%o; cbn [In]; intros H.
    - destruct H as [<-|H]; [now left|right; eapply IH; eauto].
    - right. eapply IH; eauto.
  Qed.
  Lemma filter_unique_in (pts : list (V2 F)) v : In v (filter_unique_points pts) -> In v pts.
  Proof.
    destruct pts as [|p pts]; cbn [filter_unique_points In]; [auto|].
    intros [<-|H]; [now left|right; eapply filter_unique_from_in; eauto].
  Qed.

  (** every 3-D vertex of the polygon is the lift of a vertex of the halfplane arrangement
      of the valid rows of X1 ++ X2 *)
  Theorem polygon_vertices_from_arrangement (X1 X2 : M4) (n : V3 F) (d : F) (perm : list nat) (poly : list (V3 F)) :
    compute_contact_polygon X1 X2 n d perm = Ok poly ->
    let pp := vmap (fun c => (c * d)%o) n in
    let '(x, y) := plane_basis_from_normal n in
    let hs := valid_rows x y pp (m4rows X1 ++ m4rows X2) in
    forall v, In v poly -> exists q, is_vertex hs q /\ v = project_point x y pp q.
  Proof.
    unfold compute_contact_polygon. cbv zeta.
    destruct (plane_basis_from_normal n) as [x y].
    set (pp := vmap (fun c => (c * d)%o) n).
    rewrite halfplanes_compact.
    2:{ rewrite app_length. destruct X1 as [[[? ?] ?] ?], X2 as [[[? ?] ?] ?]. cbn. lia. }
    cbn [bind]. rewrite all_some_map. cbn [bind].
    set (hs := valid_rows x y pp (m4rows X1 ++ m4rows X2)).
    destruct (intersect_halfplanes hs) as [pts|e] eqn:Hi; cbn [bind]; [|discriminate].
    apply intersect_halfplanes_sound in Hi as [Hv _].
    destruct (length pts <? 3)%nat.
    { intros H. injection H as <-. intros v []. }
    destruct (permute pts perm) as [ordered|e] eqn:Hp; cbn [bind]; [|discriminate].
    destruct (length (filter_unique_points ordered) <? 3)%nat.
    { intros H. injection H as <-. intros v []. }
    intros H. injection H as <-. intros v Hin.
    unfold project_polygon_to_3d in Hin. apply in_map_iff in Hin as (q & <- & Hq).
    exists q. split; [|reflexivity].
    apply filter_unique_in in Hq. apply (permute_in pts perm ordered Hp) in Hq.
    rewrite Forall_forall in Hv. apply Hv. exact Hq.
  Qed.
End Generic.

(** ** over the reals *)
Local Open Scope R_scope.

Lemma EPSILON_pos : 0 < (EPSILON : R).
Proof. unfold EPSILON. cbn [cst ROps]. unfold Q2R. simpl. lra. Qed.

(** the intersection point lies on both lines *)
Lemma vertex_on_lines (h1 h2 : HP R) (p : V2 R) :
  intersect_two_halfplanes h1 h2 = Some p ->
  cross2d (hdir h1) (v2sub p (hp h1)) = 0 /\ cross2d (hdir h2) (v2sub p (hp h2)) = 0.
Proof.
  unfold intersect_two_halfplanes. set (den := cross2d (hdir h1) (hdir h2)).
  destruct (abs den <? EPSILON)%o eqn:Hd; [discriminate|]. intros H. injection H as <-.
  apply Rltb_false in Hd. cbn [abs ROps] in Hd. pose proof EPSILON_pos as He.
  assert (Hden : den <> 0).
  { intros E. rewrite E, Rabs_R0 in Hd. lra. }
  destruct h1 as [[a1 a2] [u1 u2]], h2 as [[b1 b2] [w1 w2]].
  unfold cross2d, v2sub in *. cbn [hp hdir px py add sub mul div ROps] in *.
  unfold den in *. clear den. split; field; exact Hden.
Qed.

(** ... and every other halfplane is satisfied up to EPSILON *)
Lemma vertex_feasible (hs : list (HP R)) (p : V2 R) : is_vertex hs p ->
  exists i j : nat, (i < j)%nat /\
    (forall k hk, nth_error hs k = Some hk -> (k = i \/ k = j) -> cross2d (hdir hk) (v2sub p (hp hk)) = 0) /\
    (forall k hk, nth_error hs k = Some hk -> - EPSILON <= cross2d (hdir hk) (v2sub p (hp hk))).
Proof.
  intros (i & j & hi & hj & Hij & Hi & Hj & Hp & Hall).
  apply vertex_on_lines in Hp as [Hpi Hpj]. pose proof EPSILON_pos as He.
  exists i, j. split; [exact Hij|]. split.
  - intros k hk Hk [->| ->]; [rewrite Hi in Hk|rewrite Hj in Hk]; injection Hk as <-; assumption.
  - intros k hk Hk.
    destruct (Nat.eq_dec k i) as [->|Hki]; [rewrite Hi in Hk; injection Hk as <-; lra|].
    destruct (Nat.eq_dec k j) as [->|Hkj]; [rewrite Hj in Hk; injection Hk as <-; lra|].
    specialize (Hall k hk Hk Hki Hkj). unfold point_outside_of_halfplane in Hall.
    apply Rltb_false in Hall. cbn [opp ROps] in Hall. exact Hall.
Qed.

Lemma valid_rows_nth (x y pp : V3R) : forall (X : list V4R) k h,
  nth_error (valid_rows x y pp X) k = Some h -> exists Xi, In Xi X /\ hp_row x y pp Xi = Some h.
Proof.
  intros X k h Hk. apply nth_error_In in Hk. unfold valid_rows in Hk.
  apply in_flat_map in Hk as (Xi & HXi & Hin). exists Xi. split; [exact HXi|].
  destruct (hp_row x y pp Xi) as [r|]; [|destruct Hin]. destruct Hin as [->|[]]. reflexivity.
Qed.
Lemma valid_rows_in (x y pp : V3R) : forall (X : list V4R) Xi h,
  In Xi X -> hp_row x y pp Xi = Some h -> exists k, nth_error (valid_rows x y pp X) k = Some h.
Proof.
  intros X Xi h HXi Hrow. apply In_nth_error. unfold valid_rows. apply in_flat_map.
  exists Xi. split; [exact HXi|]. rewrite Hrow. now left.
Qed.

(** Main statement for the polygon layer: every vertex returned by [compute_contact_polygon]
    for a unit normal lies on the contact plane exactly, and for every face (row of X1 or X2)
    that is not parallel to the plane (its halfplane row exists) the barycentric coordinate of
    the vertex w.r.t. that face is >= - EPSILON. *)
Theorem polygon_vertices_on_plane_in_faces (X1 X2 : @M4 R) (n : V3R) (d : R) (perm : list nat) (poly : list V3R) :
  dot n n = 1 ->
  compute_contact_polygon X1 X2 n d perm = Ok poly ->
  forall v, In v poly ->
    dot n v = d /\
    let pp := vmap (fun c => (c * d)%o) n in
    let '(x, y) := plane_basis_from_normal n in
    forall Xi h, In Xi (m4rows X1 ++ m4rows X2) -> hp_row x y pp Xi = Some h -> - EPSILON <= bary_row Xi v.
Proof.
  intros Hn Hc v Hv.
  pose proof (polygon_vertices_from_arrangement X1 X2 n d perm poly Hc) as HA. cbv zeta in HA.
  pose proof (project_on_plane n d) as HP.
  destruct (plane_basis_from_normal n) as [x y].
  destruct (HA v Hv) as (q & Hq & ->).
  split; [apply (HP q Hn)|].
  cbv zeta. intros Xi h HXi Hrow.
  destruct (valid_rows_in x y _ _ Xi h HXi Hrow) as (k & Hk).
  apply vertex_feasible in Hq as (i & j & _ & _ & Hall).
  specialize (Hall k h Hk). rewrite (halfplane_is_face x y _ Xi h q Hrow) in Hall. exact Hall.
Qed.
