(** * C05, part 2: [insert_leaf] preserves the tree representation
      (for every descent heuristic), via one-hole contexts (zippers): the descent
      loop walks down building a context, the pointer surgery replaces the hole,
      [fix_upward_tree] walks the context back up. *)
From Coq Require Import List Arith Bool Lia Permutation.
From D3 Require Import Model.AabbTree Proofs.AabbTreeQuery.
Import ListNotations.

Inductive frame := FL (i : nat) (r : bt) | FR (i : nat) (l : bt).
Definition ctx := list frame.   (* head = innermost frame *)
Fixpoint plug (c : ctx) (t : bt) : bt :=
  match c with
  | [] => t
  | FL i r :: c' => plug c' (B i t r)
  | FR i l :: c' => plug c' (B i l t)
  end.
Definition fidx f := match f with FL i _ => i | FR i _ => i end.
Definition fsib f := match f with FL _ r => r | FR _ l => l end.
Definition cpar (c : ctx) (p : option nat) :=
  match c with [] => p | f :: _ => Some (fidx f) end.
Fixpoint cixs (c : ctx) : list nat :=
  match c with [] => [] | f :: c' => (fidx f :: ixs (fsib f)) ++ cixs c' end.
Fixpoint cleaves (c : ctx) : list nat :=
  match c with [] => [] | f :: c' => leaves (fsib f) ++ cleaves c' end.
Fixpoint cbranches (c : ctx) : list nat :=
  match c with [] => [] | f :: c' => (fidx f :: branches (fsib f)) ++ cbranches c' end.

Lemma plug_app c1 c2 t : plug (c1 ++ c2) t = plug c2 (plug c1 t).
Proof. revert t; induction c1 as [|[i r|i l] c1 IH]; intros t; simpl; auto. Qed.

Lemma perm_swap_mid {A} (a b c : list A) : Permutation (a ++ b ++ c) (b ++ a ++ c).
Proof. rewrite !app_assoc. apply Permutation_app_tail, Permutation_app_comm. Qed.

Lemma ixs_plug c t : Permutation (ixs (plug c t)) (ixs t ++ cixs c).
Proof.
  revert t; induction c as [|[i r|i l] c IH]; intros t; simpl.
  - rewrite app_nil_r; auto.
  - rewrite IH. simpl. rewrite <- app_assoc.
    apply Permutation_sym, Permutation_sym. apply Permutation_cons_app. reflexivity.
  - rewrite IH. simpl. rewrite <- app_assoc.
    apply Permutation_cons_app. apply perm_swap_mid.
Qed.

Lemma leaves_plug c t : Permutation (leaves (plug c t)) (leaves t ++ cleaves c).
Proof.
  revert t; induction c as [|[i r|i l] c IH]; intros t; simpl.
  - rewrite app_nil_r; auto.
  - rewrite IH. simpl. rewrite <- app_assoc. auto.
  - rewrite IH. simpl. rewrite <- app_assoc. apply perm_swap_mid.
Qed.

Lemma branches_plug c t : Permutation (branches (plug c t)) (branches t ++ cbranches c).
Proof.
  revert t; induction c as [|[i r|i l] c IH]; intros t; simpl.
  - rewrite app_nil_r; auto.
  - rewrite IH. simpl. rewrite <- app_assoc.
    apply Permutation_cons_app. reflexivity.
  - rewrite IH. simpl. rewrite <- app_assoc.
    apply Permutation_cons_app. apply perm_swap_mid.
Qed.

Lemma idx_plug_ne c t t' : c <> [] -> idx (plug c t) = idx (plug c t').
Proof.
  revert t t'; induction c as [|f c IH]; intros t t' H; [congruence|].
  destruct c as [|g c].
  - destruct f; simpl; auto.
  - destruct f; simpl plug at 1; symmetry; simpl plug at 1; symmetry; apply IH; congruence.
Qed.

Lemma fidx_in_cixs c f : In f c -> In (fidx f) (cixs c).
Proof.
  induction c as [|g c IH]; simpl; [tauto|]. intros [->|H]; auto.
  right. apply in_app_iff. auto.
Qed.

Lemma cbranches_in_cixs c i : In i (cbranches c) -> In i (cixs c).
Proof.
  induction c as [|f c IH]; simpl; auto.
  intros [H|H]; auto. apply in_app_iff in H as [H|H].
  - right. apply in_app_iff. left. apply branches_in_ixs; auto.
  - right. apply in_app_iff. auto.
Qed.

Section Insert.
  Variable C : Type.
  Variable le : C -> C -> bool.
  Variables cmin cmax : C -> C -> C.
  Variable go_left : box C -> box C -> box C -> bool.
  Variable cost_ok : box C -> box C -> box C -> box C -> bool.
  Notation box := (box C).
  Notation merge := (merge C cmin cmax).
  Notation RepS := RepS.
  Notation BoxOK := (BoxOK C cmin cmax).

  (** context version of [RepS]: the hole contains row [h] *)
  Fixpoint RepC (ns : list node) (p : option nat) (c : ctx) (h : nat) : Prop :=
    match c with
    | [] => True
    | FL i r :: c' =>
      (exists n, nth_error ns i = Some n /\ par n = cpar c' p /\ lft n = Some h /\
                 rgt n = Some (idx r) /\ typ n = TBranch) /\
      RepS ns (Some i) r /\ RepC ns p c' i
    | FR i l :: c' =>
      (exists n, nth_error ns i = Some n /\ par n = cpar c' p /\ lft n = Some (idx l) /\
                 rgt n = Some h /\ typ n = TBranch) /\
      RepS ns (Some i) l /\ RepC ns p c' i
    end.

  Lemma RepS_plug ns p c t :
    RepS ns p (plug c t) <-> RepC ns p c (idx t) /\ RepS ns (cpar c p) t.
  Proof.
    revert t; induction c as [|[i r|i l] c IH]; intros t; simpl.
    - tauto.
    - rewrite IH. simpl. split.
      + intros (H1 & n & H2 & H3 & H4 & H5 & H6 & H7 & H8). repeat split; eauto 10.
      + intros (((n & H2 & H3 & H4 & H5 & H6) & H7 & H1) & H8). split; eauto 10.
    - rewrite IH. simpl. split.
      + intros (H1 & n & H2 & H3 & H4 & H5 & H6 & H7 & H8). repeat split; eauto 10.
      + intros (((n & H2 & H3 & H4 & H5 & H6) & H7 & H1) & H8). split; eauto 10.
  Qed.

  Lemma RepC_frame ns ns' p c h :
    (forall i, In i (cixs c) -> nth_error ns' i = nth_error ns i) ->
    RepC ns p c h -> RepC ns' p c h.
  Proof.
    revert h; induction c as [|[i r|i l] c IH]; intros h Hf; simpl; auto.
    - intros ((n & H1 & H2) & H3 & H4). repeat split.
      + exists n. rewrite Hf; simpl; auto.
      + apply (RepS_frame ns); [|assumption]. intros j Hj. apply Hf. simpl. right. apply in_app_iff; auto.
      + apply IH; auto. intros j Hj. apply Hf. simpl. right. apply in_app_iff; auto.
    - intros ((n & H1 & H2) & H3 & H4). repeat split.
      + exists n. rewrite Hf; simpl; auto.
      + apply (RepS_frame ns); [|assumption]. intros j Hj. apply Hf. simpl. right. apply in_app_iff; auto.
      + apply IH; auto. intros j Hj. apply Hf. simpl. right. apply in_app_iff; auto.
  Qed.

  (** changing what sits in the hole only needs the innermost frame's row *)
  Lemma RepC_rehole ns p c h h' :
    match c with
    | [] => True
    | FL i r :: c' => exists n, nth_error ns i = Some n /\ par n = cpar c' p /\ lft n = Some h' /\
                                rgt n = Some (idx r) /\ typ n = TBranch
    | FR i l :: c' => exists n, nth_error ns i = Some n /\ par n = cpar c' p /\ lft n = Some (idx l) /\
                                rgt n = Some h' /\ typ n = TBranch
    end ->
    RepC ns p c h -> RepC ns p c h'.
  Proof. destruct c as [|[i r|i l] c]; simpl; tauto. Qed.

  (** boxes of a context *)
  Fixpoint BoxC (ab : list box) (c : ctx) (h : nat) : Prop :=
    match c with
    | [] => True
    | FL i r :: c' =>
      BoxOK ab r /\
      (exists bh br, nth_error ab h = Some bh /\ nth_error ab (idx r) = Some br /\
                     nth_error ab i = Some (merge bh br)) /\ BoxC ab c' i
    | FR i l :: c' =>
      BoxOK ab l /\
      (exists bl bh, nth_error ab (idx l) = Some bl /\ nth_error ab h = Some bh /\
                     nth_error ab i = Some (merge bl bh)) /\ BoxC ab c' i
    end.

  Lemma BoxOK_plug ab c t : BoxOK ab (plug c t) <-> BoxC ab c (idx t) /\ BoxOK ab t.
  Proof.
    revert t; induction c as [|[i r|i l] c IH]; intros t; simpl.
    - tauto.
    - rewrite IH. simpl. tauto.
    - rewrite IH. simpl. tauto.
  Qed.

  (** siblings have good boxes and frame rows exist (merge equations may be stale) *)
  Definition BoxCw (ab : list box) (c : ctx) : Prop :=
    Forall (fun f => BoxOK ab (fsib f) /\ fidx f < length ab) c.

  Lemma BoxC_weaken ab c h : BoxC ab c h -> BoxCw ab c.
  Proof.
    revert h; induction c as [|[i r|i l] c IH]; intros h; simpl; [constructor|..].
    - intros (H1 & (bh & br & _ & _ & H2) & H3). constructor; [|apply (IH i); auto].
      split; auto. simpl. apply nth_error_Some. congruence.
    - intros (H1 & (bh & br & _ & _ & H2) & H3). constructor; [|apply (IH i); auto].
      split; auto. simpl. apply nth_error_Some. congruence.
  Qed.


  (** ** [fix_upward_tree] *)
  Lemma fix_up_spec ns :
    forall c h ab fuel,
      RepC ns None c h -> length c <= fuel ->
      BoxCw ab c -> NoDup (h :: cixs c) -> (exists bh, nth_error ab h = Some bh) ->
      exists ab', fix_up C cmin cmax fuel ns ab (cpar c None) = Ok ab' /\
                  BoxC ab' c h /\ length ab' = length ab /\
                  (forall i, ~ In i (map fidx c) -> nth_error ab' i = nth_error ab i).
  Proof.
    induction c as [|f c IH]; intros h ab fuel HR Hfu HB HN (bh & Hbh).
    - simpl. exists ab. destruct fuel; simpl; auto.
    - destruct fuel as [|fuel]; [simpl in Hfu; lia|].
      inversion HB as [|? ? (HBs & Hlt) HB']; subst.
      assert (HNc : NoDup (fidx f :: cixs c)).
      { inversion HN as [|? ? _ HN']; subst. simpl in HN'.
        inversion HN' as [|? ? Hn1 HN'']; subst. apply NoDup_app_inv in HN'' as (_ & HN'' & _).
        constructor; auto. intros Hin; apply Hn1, in_app_iff; auto. }
      assert (Hh : h <> fidx f).
      { inversion HN as [|? ? Hn _]; subst. intros ->; apply Hn; simpl; auto. }
      assert (Hsib : forall i, In i (ixs (fsib f)) -> i <> fidx f /\ ~ In i (map fidx c) /\ i <> h).
      { intros i Hi. inversion HN as [|? ? Hn0 HN']; subst. simpl in HN'.
        inversion HN' as [|? ? Hn1 HN'']; subst. apply NoDup_app_inv in HN'' as (_ & _ & Hd).
        repeat split.
        - intros ->; apply Hn1, in_app_iff; auto.
        - intros Hin. apply in_map_iff in Hin as (g & <- & Hg). apply (Hd (fidx g)); auto.
          apply fidx_in_cixs; auto.
        - intros ->. apply Hn0. simpl. right. apply in_app_iff; auto. }
      assert (Hhc : ~ In h (map fidx c)).
      { inversion HN as [|? ? Hn0 _]; subst. intros Hin. apply in_map_iff in Hin as (g & <- & Hg).
        apply Hn0. simpl. right. apply in_app_iff. right. apply fidx_in_cixs; auto. }
      assert (Hfc : ~ In (fidx f) (map fidx c)).
      { inversion HNc as [|? ? Hn _]; subst. intros Hin. apply in_map_iff in Hin as (g & Hg1 & Hg).
        apply Hn. rewrite <- Hg1. apply fidx_in_cixs; auto. }
      destruct (BoxOK_root _ _ _ _ _ HBs) as (bs & Hbs).
      destruct f as [i r|i l]; simpl in HR, Hlt, Hbs, Hh, Hsib, Hfc, HNc;
        destruct HR as ((n & Hn & Hpar & Hl & Hr & Ht) & HRs & HRc); simpl cpar.
      + cbn [fix_up]. unfold get at 1. rewrite Hn. cbn [bind]. rewrite Hl, Hr.
        unfold get. rewrite Hbh, Hbs. cbn [bind].
        unfold upd. destruct (Nat.ltb_spec i (length ab)); [|lia]. cbn [bind].
        rewrite Hpar.
        set (ab1 := set_nth ab i (merge bh bs)).
        assert (Hab1 : forall j, j <> i -> nth_error ab1 j = nth_error ab j)
          by (intros; apply nth_error_set_nth_neq; auto).
        destruct (IH i ab1 fuel) as (ab' & Hfix & HBC & Hlen & Hfr); auto.
        * simpl in Hfu; lia.
        * unfold BoxCw in *. rewrite Forall_forall in *. intros g Hg.
          destruct (HB' g Hg) as (Hg1 & Hg2). split; [|unfold ab1; rewrite length_set_nth; auto].
          apply (BoxOK_frame _ _ _ ab); [|assumption]. intros j Hj. apply Hab1.
          inversion HNc as [|? ? Hn' _]; subst. intros ->. apply Hn'.
          clear - Hg Hj. induction c as [|g' c IHc]; simpl in *; [tauto|].
          destruct Hg as [->|Hg]; [right; apply in_app_iff; auto|].
          right. apply in_app_iff. right. apply IHc; auto.
        * exists (merge bh bs). unfold ab1. apply nth_error_set_nth_eq; auto.
        * exists ab'. split; [exact Hfix|]. split; [|split].
          -- simpl. split; [|split; auto].
             ++ apply (BoxOK_frame _ _ _ ab); [|assumption]. intros j Hj. destruct (Hsib j Hj) as (H1 & H2 & H3).
                rewrite Hfr; auto.
             ++ exists bh, bs.
                assert (E1 : nth_error ab' h = Some bh) by (rewrite Hfr, Hab1; auto).
                assert (E2 : nth_error ab' (idx r) = Some bs).
                { destruct (Hsib _ (idx_in_ixs r)) as (A1 & A2 & A3). rewrite Hfr, Hab1; auto. }
                assert (E3 : nth_error ab' i = Some (merge bh bs)).
                { rewrite Hfr; auto. unfold ab1; apply nth_error_set_nth_eq; auto. }
                auto.
          -- rewrite Hlen. unfold ab1. apply length_set_nth.
          -- intros j Hj. simpl in Hj. rewrite Hfr by tauto. apply Hab1. intros ->. apply Hj. auto.
      + cbn [fix_up]. unfold get at 1. rewrite Hn. cbn [bind]. rewrite Hl, Hr.
        unfold get. rewrite Hbh, Hbs. cbn [bind].
        unfold upd. destruct (Nat.ltb_spec i (length ab)); [|lia]. cbn [bind].
        rewrite Hpar.
        set (ab1 := set_nth ab i (merge bs bh)).
        assert (Hab1 : forall j, j <> i -> nth_error ab1 j = nth_error ab j)
          by (intros; apply nth_error_set_nth_neq; auto).
        destruct (IH i ab1 fuel) as (ab' & Hfix & HBC & Hlen & Hfr); auto.
        * simpl in Hfu; lia.
        * unfold BoxCw in *. rewrite Forall_forall in *. intros g Hg.
          destruct (HB' g Hg) as (Hg1 & Hg2). split; [|unfold ab1; rewrite length_set_nth; auto].
          apply (BoxOK_frame _ _ _ ab); [|assumption]. intros j Hj. apply Hab1.
          inversion HNc as [|? ? Hn' _]; subst. intros ->. apply Hn'.
          clear - Hg Hj. induction c as [|g' c IHc]; simpl in *; [tauto|].
          destruct Hg as [->|Hg]; [right; apply in_app_iff; auto|].
          right. apply in_app_iff. right. apply IHc; auto.
        * exists (merge bs bh). unfold ab1. apply nth_error_set_nth_eq; auto.
        * exists ab'. split; [exact Hfix|]. split; [|split].
          -- simpl. split; [|split; auto].
             ++ apply (BoxOK_frame _ _ _ ab); [|assumption]. intros j Hj. destruct (Hsib j Hj) as (H1 & H2 & H3).
                rewrite Hfr; auto.
             ++ exists bs, bh.
                assert (E1 : nth_error ab' h = Some bh) by (rewrite Hfr, Hab1; auto).
                assert (E2 : nth_error ab' (idx l) = Some bs).
                { destruct (Hsib _ (idx_in_ixs l)) as (A1 & A2 & A3). rewrite Hfr, Hab1; auto. }
                assert (E3 : nth_error ab' i = Some (merge bs bh)).
                { rewrite Hfr; auto. unfold ab1; apply nth_error_set_nth_eq; auto. }
                auto.
          -- rewrite Hlen. unfold ab1. apply length_set_nth.
          -- intros j Hj. simpl in Hj. rewrite Hfr by tauto. apply Hab1. intros ->. apply Hj. auto.
  Qed.

  (** ** the descent loop *)
  Notation descend := (descend C go_left cost_ok).

  Lemma descend_spec ns ab lb :
    forall t p fuel,
      RepS ns p t -> BoxOK ab t -> size t <= fuel ->
      descend fuel ns ab lb (idx t) = Err EAssert \/
      exists c s, descend fuel ns ab lb (idx t) = Ok s /\ t = plug c (L s).
  Proof.
    induction t as [i|i l IHl r IHr]; intros p fuel HR HB Hs.
    - destruct fuel as [|f]; [simpl in Hs; lia|].
      simpl in HR. destruct HR as (n & Hn & _ & Ht).
      right. exists [], i. simpl. unfold get. rewrite Hn. cbn [bind]. rewrite Ht. simpl. auto.
    - destruct fuel as [|f]; [simpl in Hs; lia|].
      simpl in HR. destruct HR as (n & Hn & _ & Hl & Hr & Ht & HRl & HRr).
      simpl in HB. destruct HB as (HBl & HBr & bl & br & Hbl & Hbr & Hbi).
      simpl in Hs.
      assert (EQ : descend (S f) ns ab lb i =
                   if cost_ok lb (merge bl br) bl br
                   then (if go_left lb bl br then descend f ns ab lb (idx l)
                         else descend f ns ab lb (idx r))
                   else Err EAssert).
      { cbn [AabbTree.descend]. unfold get at 1. rewrite Hn. cbn [bind]. rewrite Ht. cbn [is_branch].
        rewrite Hl, Hr. cbn [geto]. unfold get. rewrite Hbl, Hbr, Hbi. cbn [bind].
        destruct (cost_ok lb (merge bl br) bl br); auto.
        destruct (go_left lb bl br); auto. }
      cbn [idx]. rewrite EQ. clear EQ.
      destruct (cost_ok lb (merge bl br) bl br); [|left; reflexivity].
      destruct (go_left lb bl br).
      + destruct (IHl (Some i) f HRl HBl) as [E|(c & s & E & ->)]; [lia|left; exact E|].
        right. exists (c ++ [FL i r]), s. split; [exact E|]. rewrite plug_app. reflexivity.
      + destruct (IHr (Some i) f HRr HBr) as [E|(c & s & E & ->)]; [lia|left; exact E|].
        right. exists (c ++ [FR i l]), s. split; [exact E|]. rewrite plug_app. reflexivity.
  Qed.

  Lemma modify_eq (ns : list node) i f n :
    nth_error ns i = Some n -> modify ns i f = Ok (set_nth ns i (f n)).
  Proof.
    intros H. unfold modify, get. rewrite H. cbn [bind]. unfold upd.
    assert (i < length ns) by (apply nth_error_Some; congruence).
    destruct (Nat.ltb_spec i (length ns)); auto; lia.
  Qed.
  Lemma upd_eq {A} (l : list A) i x : i < length l -> upd l i x = Ok (set_nth l i x).
  Proof. intros H. unfold upd. destruct (Nat.ltb_spec i (length l)); auto; lia. Qed.

  Lemma length_ctx_le ns c h :
    RepC ns None c h -> NoDup (cixs c) -> length c <= length ns.
  Proof.
    intros HR HN.
    assert (Hm : NoDup (map fidx c) /\ forall i, In i (map fidx c) -> i < length ns).
    { revert h HR HN. induction c as [|f c IH]; intros h HR HN; simpl.
      - split; [constructor|tauto].
      - simpl in HN. inversion HN as [|? ? Hn HN']; subst.
        apply NoDup_app_inv in HN' as (_ & HN' & _).
        assert (HRc : RepC ns None c (fidx f) /\ fidx f < length ns).
        { destruct f; simpl in HR; destruct HR as ((n & Hn' & _) & _ & HRc); split; auto;
            apply nth_error_Some; simpl; congruence. }
        destruct HRc as (HRc & Hlt).
        destruct (IH _ HRc HN') as (IH1 & IH2). split.
        + constructor; auto. intros Hin. apply Hn. apply in_app_iff. right.
          apply in_map_iff in Hin as (g & <- & Hg). apply fidx_in_cixs; auto.
        + intros i [<-|Hi]; auto. }
    destruct Hm as (Hm1 & Hm2).
    rewrite <- (map_length fidx c). rewrite <- (seq_length (length ns) 0).
    apply NoDup_incl_length; auto. intros i Hi. apply in_seq. specialize (Hm2 i Hi). lia.
  Qed.

  Notation insert_leaf := (insert_leaf C cmin cmax go_left cost_ok).

  (** ** [insert_leaf] on a non-empty tree *)
  Definition ins_post (ns : list node) (ab : list box) (t : bt) (j fl : nat)
             (r : res (option nat * list node * list box * nat)) : Prop :=
    match r with
    | Err e => e = EAssert
    | Ok (rt, ns', ab', fl') =>
      exists t',
      rt = Some (idx t') /\ fl' = S fl /\
      RepS ns' None t' /\ BoxOK ab' t' /\
      Permutation (ixs t') (j :: fl :: ixs t) /\
      Permutation (leaves t') (j :: leaves t) /\
      Permutation (branches t') (fl :: branches t) /\
      length ns' = length ns /\ length ab' = length ab /\
      (forall i, ~ In i (j :: fl :: ixs t) -> nth_error ns' i = nth_error ns i) /\
      (forall i, ~ In i (fl :: branches t) -> nth_error ab' i = nth_error ab i)
    end.

  Lemma insert_leaf_spec ns ab t j fl nj lb :
    RepS ns None t -> BoxOK ab t -> NoDup (ixs t) ->
    ~ In j (ixs t) -> ~ In fl (ixs t) -> j <> fl ->
    nth_error ns j = Some nj -> fl < length ns -> length ab = length ns ->
    nth_error ab j = Some lb ->
    ins_post ns ab t j fl (insert_leaf (Some (idx t)) j ns ab fl).
  Proof.
    intros HR HB HN Hj Hfl Hjfl Hnj Hfllt Hlen Hlb.
    unfold AabbTree.insert_leaf.
    rewrite (modify_eq _ _ _ _ Hnj). cbn [bind].
    set (ns1 := set_nth ns j (set_typ nj TLeaf)).
    assert (Hjlt : j < length ns) by (apply nth_error_Some; congruence).
    assert (L1 : length ns1 = length ns) by apply length_set_nth.
    assert (N1 : forall i, i <> j -> nth_error ns1 i = nth_error ns i)
      by (intros; apply nth_error_set_nth_neq; auto).
    assert (N1j : nth_error ns1 j = Some (set_typ nj TLeaf))
      by (apply nth_error_set_nth_eq; auto).
    assert (HR1 : RepS ns1 None t).
    { apply (RepS_frame ns); auto. intros i Hi. apply N1. intros ->. auto. }
    unfold get at 1. rewrite Hlb. cbn [bind].
    destruct (descend_spec ns1 ab lb t None (S (length ns1)) HR1 HB) as [E|(c & s & E & Ht)].
    { pose proof (size_le_length _ _ _ HR1 HN). lia. }
    { rewrite E. reflexivity. }
    rewrite E. cbn [bind]. subst t.
    assert (HP : Permutation (ixs (plug c (L s))) (s :: cixs c)) by apply ixs_plug.
    assert (HNs : NoDup (s :: cixs c)) by (eapply Permutation_NoDup; eauto).
    assert (Hjs : ~ In j (s :: cixs c)) by (intros H; apply Hj; eapply Permutation_in; [symmetry; eauto|auto]).
    assert (Hfls : ~ In fl (s :: cixs c)) by (intros H; apply Hfl; eapply Permutation_in; [symmetry; eauto|auto]).
    apply RepS_plug in HR1 as (HC1 & HS1). simpl in HS1. destruct HS1 as (sn & Hsn & Hsp & Hst).
    apply BoxOK_plug in HB as (HBC & (bs & Hbs)). simpl idx in HBC.
    unfold get at 1. rewrite Hsn. cbn [bind].
    assert (Hsj : s <> j) by (intros ->; apply Hjs; simpl; auto).
    assert (Hsfl : s <> fl) by (intros ->; apply Hfls; simpl; auto).
    rewrite upd_eq by lia. cbn [bind].
    set (ns2 := set_nth ns1 fl (Node (par sn) (Some s) (Some j) TBranch)).
    unfold get at 1. rewrite Hbs. cbn [bind].
    rewrite upd_eq by lia. cbn [bind].
    set (ab1 := set_nth ab fl (merge lb bs)).
    assert (N2j : nth_error ns2 j = Some (set_typ nj TLeaf)).
    { unfold ns2. rewrite nth_error_set_nth_neq; auto. }
    rewrite (modify_eq _ _ _ _ N2j). cbn [bind].
    set (ns3 := set_nth ns2 j (set_par (set_typ nj TLeaf) (Some fl))).
    assert (N3s : nth_error ns3 s = Some sn).
    { unfold ns3, ns2. rewrite !nth_error_set_nth_neq; auto. }
    rewrite (modify_eq _ _ _ _ N3s). cbn [bind].
    set (ns4 := set_nth ns3 s (set_par sn (Some fl))).
    assert (L4 : length ns4 = length ns).
    { unfold ns4, ns3, ns2. rewrite !length_set_nth. auto. }
    assert (N4 : forall i, i <> j -> i <> fl -> i <> s -> nth_error ns4 i = nth_error ns i).
    { intros i H1 H2 H3. unfold ns4, ns3, ns2. rewrite !nth_error_set_nth_neq; auto. }
    assert (N4fl : nth_error ns4 fl = Some (Node (par sn) (Some s) (Some j) TBranch)).
    { unfold ns4, ns3. rewrite nth_error_set_nth_neq by auto.
      rewrite nth_error_set_nth_neq by auto.
      apply nth_error_set_nth_eq. lia. }
    assert (N4j : nth_error ns4 j = Some (set_par (set_typ nj TLeaf) (Some fl))).
    { unfold ns4, ns3. rewrite nth_error_set_nth_neq; auto.
      apply nth_error_set_nth_eq. unfold ns2. rewrite length_set_nth. lia. }
    assert (N4s : nth_error ns4 s = Some (set_par sn (Some fl))).
    { unfold ns4. apply nth_error_set_nth_eq. unfold ns3, ns2. rewrite !length_set_nth.
      rewrite L1. apply nth_error_Some. rewrite <- N1; auto. congruence. }
    assert (A1 : forall i, i <> fl -> nth_error ab1 i = nth_error ab i)
      by (intros; apply nth_error_set_nth_neq; auto).
    assert (A1fl : nth_error ab1 fl = Some (merge lb bs))
      by (apply nth_error_set_nth_eq; lia).
    assert (LA1 : length ab1 = length ab) by apply length_set_nth.
    (* what remains is the same in both cases once the final node array is known *)
    assert (Fin : forall ns5 rt,
      length ns5 = length ns ->
      nth_error ns5 fl = Some (Node (cpar c None) (Some s) (Some j) TBranch) ->
      nth_error ns5 j = Some (set_par (set_typ nj TLeaf) (Some fl)) ->
      nth_error ns5 s = Some (set_par sn (Some fl)) ->
      RepC ns5 None c fl ->
      (forall i, ~ In i (j :: fl :: s :: cixs c) -> nth_error ns5 i = nth_error ns i) ->
      rt = Some (idx (plug c (B fl (L s) (L j)))) ->
      ins_post ns ab (plug c (L s)) j fl
        (ln <- get ns5 j ;;
         ab0 <- fix_up C cmin cmax (S (length ns5)) ns5 ab1 (par ln) ;;
         Ok (rt, ns5, ab0, S fl))).
    { intros ns5 rt L5 N5fl N5j N5s HC5 N5 Hrt.
      unfold get at 1. rewrite N5j. cbn [bind]. cbn [set_par par].
      set (cf := FL fl (L j) :: c).
      assert (HRcf : RepC ns5 None cf s).
      { simpl. split; [|split; auto].
        - eexists; split; [exact N5fl|]. simpl. auto.
        - eexists; split; [exact N5j|]. simpl. auto. }
      assert (HNcf : NoDup (s :: cixs cf)).
      { simpl. inversion HNs as [|? ? Hn0 HNc]; subst.
        constructor; [|constructor; [|constructor; auto]].
        - simpl. intros [H|[H|H]]; [congruence|congruence|auto].
        - simpl. intros [H|H]; [congruence|]. apply Hfls; simpl; auto.
        - intros H. apply Hjs; simpl; auto. }
      assert (HBw : BoxCw ab1 cf).
      { constructor.
        - simpl. split; [exists lb; rewrite A1; auto|lia].
        - apply BoxC_weaken in HBC. unfold BoxCw in *. rewrite Forall_forall in *.
          intros g Hg. destruct (HBC g Hg) as (G1 & G2). split; [|lia].
          apply (BoxOK_frame _ _ _ ab); auto. intros i Hi. apply A1. intros ->.
          apply Hfls. simpl. right. clear - Hg Hi.
          induction c as [|g' c IHc]; simpl in *; [tauto|].
          destruct Hg as [->|Hg]; [right; apply in_app_iff; auto|].
          right. apply in_app_iff. right. apply IHc; auto. }
      destruct (fix_up_spec ns5 cf s ab1 (S (length ns5)) HRcf) as (ab' & Hfix & HBC' & Lab' & Fab'); auto.
      { simpl. apply le_n_S.
        assert (HNc : NoDup (cixs c)) by (inversion HNs; auto).
        simpl in HRcf. destruct HRcf as (_ & _ & HRc).
        apply (length_ctx_le _ _ _ HRc HNc). }
      { exists bs. rewrite A1; auto. }
      simpl cpar in Hfix. rewrite Hfix. cbn [bind].
      exists (plug c (B fl (L s) (L j))).
      split; [exact Hrt|]. split; [reflexivity|].
      split; [|split].
      - apply RepS_plug. split; auto. simpl.
        eexists; split; [exact N5fl|]. simpl. repeat split; auto.
        + eexists; split; [exact N5s|]. simpl. auto.
        + eexists; split; [exact N5j|]. simpl. auto.
      - change (plug c (B fl (L s) (L j))) with (plug cf (L s)).
        apply BoxOK_plug. split; auto. simpl. exists bs.
        rewrite Fab'. { rewrite A1; auto. }
        simpl. intros [H|H]; [congruence|].
        apply in_map_iff in H as (g & Hg1 & Hg2). apply fidx_in_cixs in Hg2.
        rewrite Hg1 in Hg2. inversion HNs; auto.
      - split; [|split; [|split; [|split; [|split; [|split]]]]]; auto.
        + rewrite ixs_plug, HP. simpl. apply Permutation_sym.
          apply (Permutation_cons_app [fl; s] (cixs c) j). reflexivity.
        + rewrite !leaves_plug. simpl. apply perm_swap.
        + rewrite !branches_plug. simpl. reflexivity.
        + lia.
        + intros i Hi. apply N5. intros Hin. apply Hi.
          destruct Hin as [->|[->|Hin]]; simpl; auto.
          right. right. eapply Permutation_in; [symmetry; exact HP|auto].
        + intros i Hi. rewrite Fab'.
          * apply A1. intros ->. apply Hi; simpl; auto.
          * simpl. intros [H|H]; [apply Hi; simpl; auto|].
            apply Hi. right. eapply Permutation_in; [symmetry; apply branches_plug|].
            simpl. apply in_map_iff in H as (g & <- & Hg). clear - Hg.
            induction c as [|g' c IHc]; simpl in *; [tauto|].
            destruct Hg as [->|Hg]; auto. right. apply in_app_iff. right. auto. }
    destruct c as [|f c'].
    - (* the sibling was the root *)
      simpl cpar in Hsp. rewrite Hsp. cbn [bind].
      apply Fin; auto.
      + rewrite <- Hsp. exact N4fl.
      + intros i Hi. apply N4; intros ->; apply Hi; simpl; auto.
    - (* the sibling had a parent p *)
      destruct f as [p r|p l].
      + (* f = FL p r *)
        simpl cpar in Hsp. rewrite Hsp. cbn [bind].
        simpl in HC1. destruct HC1 as ((pn & Hpn & Hppar & Hpl & Hpr & Hptyp) & HRsib & HRc').
        destruct (proj1 (NoDup_cons_iff _ _) HNs) as (Hn0 & HNc).
        simpl in HNc. destruct (proj1 (NoDup_cons_iff _ _) HNc) as (Hnf & HNc2).
        assert (P1 : p <> j) by (intros ->; apply Hjs; simpl; auto).
        assert (P2 : p <> fl) by (intros ->; apply Hfls; simpl; auto).
        assert (P3 : p <> s) by (intros ->; apply Hn0; simpl; auto).
        assert (Hother : forall i, In i (ixs r ++ cixs c') -> i <> p /\ i <> j /\ i <> fl /\ i <> s).
        { intros i Hi. repeat split; intros ->.
          - apply Hnf; auto.
          - apply Hjs; simpl; auto.
          - apply Hfls; simpl; auto.
          - apply Hn0; simpl; auto. }
        assert (N4p : nth_error ns4 p = Some pn).
        { rewrite N4; auto. rewrite <- N1; auto. }
        unfold get at 1. rewrite N4p. cbn [bind].
        assert (Hplt : p < length ns4) by (apply nth_error_Some; congruence).
        rewrite Hpl. simpl onat_eqb. rewrite Nat.eqb_refl.
        rewrite upd_eq by auto. cbn [bind].
        set (ns5 := set_nth ns4 p (set_lft pn (Some fl))).
        assert (N5 : forall i, i <> p -> nth_error ns5 i = nth_error ns4 i)
          by (intros; apply nth_error_set_nth_neq; auto).
        apply Fin.
        * unfold ns5. rewrite length_set_nth. auto.
        * rewrite N5 by auto. simpl cpar. rewrite <- Hsp. exact N4fl.
        * rewrite N5 by auto. exact N4j.
        * rewrite N5 by auto. exact N4s.
        * simpl. split; [|split].
          -- exists (set_lft pn (Some fl)). split; [apply nth_error_set_nth_eq; auto|].
             simpl. auto.
          -- apply (RepS_frame ns1); auto. intros i Hi.
             destruct (Hother i) as (O1 & O2 & O3 & O4); [apply in_app_iff; auto|].
             rewrite N5, N4, N1; auto.
          -- apply (RepC_frame ns1); auto. intros i Hi.
             destruct (Hother i) as (O1 & O2 & O3 & O4); [apply in_app_iff; auto|].
             rewrite N5, N4, N1; auto.
        * intros i Hi. rewrite N5, N4; auto; intros ->; apply Hi; simpl; auto.
        * apply f_equal. apply idx_plug_ne. congruence.
      + (* f = FR p l *)
        simpl cpar in Hsp. rewrite Hsp. cbn [bind].
        simpl in HC1. destruct HC1 as ((pn & Hpn & Hppar & Hpl & Hpr & Hptyp) & HRsib & HRc').
        destruct (proj1 (NoDup_cons_iff _ _) HNs) as (Hn0 & HNc).
        simpl in HNc. destruct (proj1 (NoDup_cons_iff _ _) HNc) as (Hnf & HNc2).
        assert (P1 : p <> j) by (intros ->; apply Hjs; simpl; auto).
        assert (P2 : p <> fl) by (intros ->; apply Hfls; simpl; auto).
        assert (P3 : p <> s) by (intros ->; apply Hn0; simpl; auto).
        assert (Hother : forall i, In i (ixs l ++ cixs c') -> i <> p /\ i <> j /\ i <> fl /\ i <> s).
        { intros i Hi. repeat split; intros ->.
          - apply Hnf; auto.
          - apply Hjs; simpl; auto.
          - apply Hfls; simpl; auto.
          - apply Hn0; simpl; auto. }
        assert (N4p : nth_error ns4 p = Some pn).
        { rewrite N4; auto. rewrite <- N1; auto. }
        unfold get at 1. rewrite N4p. cbn [bind].
        assert (Hplt : p < length ns4) by (apply nth_error_Some; congruence).
        assert (Hlne : onat_eqb (lft pn) (Some s) = false).
        { rewrite Hpl. simpl. apply Nat.eqb_neq. intros Heq.
          apply Hn0. simpl. right. apply in_app_iff. left. rewrite <- Heq. apply idx_in_ixs. }
        rewrite Hlne.
        rewrite upd_eq by auto. cbn [bind].
        set (ns5 := set_nth ns4 p (set_rgt pn (Some fl))).
        assert (N5 : forall i, i <> p -> nth_error ns5 i = nth_error ns4 i)
          by (intros; apply nth_error_set_nth_neq; auto).
        apply Fin.
        * unfold ns5. rewrite length_set_nth. auto.
        * rewrite N5 by auto. simpl cpar. rewrite <- Hsp. exact N4fl.
        * rewrite N5 by auto. exact N4j.
        * rewrite N5 by auto. exact N4s.
        * simpl. split; [|split].
          -- exists (set_rgt pn (Some fl)). split; [apply nth_error_set_nth_eq; auto|].
             simpl. auto.
          -- apply (RepS_frame ns1); auto. intros i Hi.
             destruct (Hother i) as (O1 & O2 & O3 & O4); [apply in_app_iff; auto|].
             rewrite N5, N4, N1; auto.
          -- apply (RepC_frame ns1); auto. intros i Hi.
             destruct (Hother i) as (O1 & O2 & O3 & O4); [apply in_app_iff; auto|].
             rewrite N5, N4, N1; auto.
        * intros i Hi. rewrite N5, N4; auto; intros ->; apply Hi; simpl; auto.
        * apply f_equal. apply idx_plug_ne. congruence.
  Qed.
End Insert.
