(** * C06, part 2: the BVH invariant, update_collider_poses, the three broad-phase queries.
    Built on the internal lemmas of the C05 proof ([WF], [insert_batch_spec],
    [overlaps_aabb_WF], [overlaps_aabb_tree_WF]). *)
From Coq Require Import List Arith Bool Lia Permutation.
From D3 Require Import Model.AabbTree Model.Bvh Proofs.AabbTreeQuery Proofs.AabbTreeInsert
                       Proofs.AabbTreeProofs Proofs.BvhDict.
Import ListNotations.

Section BvhProofs.
  Variable C : Type.
  Variable le : C -> C -> bool.
  Variables cmin cmax : C -> C -> C.
  Variable czero : C.
  Variable go_left : box C -> box C -> box C -> bool.
  Variable cost_ok : box C -> box C -> box C -> box C -> bool.
  Hypothesis le_trans : forall a b c, le a b = true -> le b c = true -> le a c = true.
  Hypothesis cmin_l : forall a b, le (cmin a b) a = true.
  Hypothesis cmin_r : forall a b, le (cmin a b) b = true.
  Hypothesis cmax_l : forall a b, le a (cmax a b) = true.
  Hypothesis cmax_r : forall a b, le b (cmax a b) = true.

  Variable frame : Type.
  Variable feqb : frame -> frame -> bool.
  Hypothesis feqb_spec : forall a b, feqb a b = true <-> a = b.
  Variables coll pose : Type.
  Variable upd : coll -> pose -> coll.
  Variable aabb_of : coll -> box C.

  Notation datum := (datum frame).
  Notation tree := (AabbTree.tree C datum).
  Notation entry := (entry C datum).
  Notation WF := (WF C cmin cmax datum).
  Notation eidx := (eidx C datum).
  Notation ebox := (ebox C datum).
  Notation state := (state C frame coll pose).
  Notation overlap := (overlap C le).
  Notation insert_aabb := (insert_aabb C cmin cmax czero go_left cost_ok frame).
  Notation upd_loop := (upd_loop C cmin cmax czero go_left cost_ok frame coll pose upd aabb_of).
  Notation update_collider_poses :=
    (update_collider_poses C cmin cmax czero go_left cost_ok frame coll pose upd aabb_of).
  Notation add_collider := (add_collider C cmin cmax czero go_left cost_ok frame feqb coll pose aabb_of).
  Notation aabb_overlapping_colliders := (aabb_overlapping_colliders C le frame feqb coll pose).
  Notation aabb_overlapping_with_other_bvh := (aabb_overlapping_with_other_bvh C le frame coll pose).
  Notation aabb_overlapping_with_self := (aabb_overlapping_with_self C le frame coll pose).
  Notation step := (step C cmin cmax czero go_left cost_ok frame feqb coll pose upd aabb_of).
  Notation run_ops := (run_ops C cmin cmax czero go_left cost_ok frame feqb coll pose upd aabb_of).

  (** ** the invariant: the tree holds exactly one leaf per entry of [colliders_], whose box
      is the CURRENT aabb of the collider object and whose payload is [(frame, object)] *)
  Definition entry_ok (hp : list coll) (e : entry) (fo : frame * oid) : Prop :=
    exists c, nth_error hp (snd fo) = Some c /\ ebox e = aabb_of c /\ snd e = Some fo.

  Definition Inv (st : state) : Prop :=
    exists asg, WF (atree _ _ _ _ st) asg /\
                Forall2 (entry_ok (heap _ _ _ _ st)) asg (colliders _ _ _ _ st) /\
                NoDup (map fst (colliders _ _ _ _ st)).

  Lemma insert_aabb_spec t asg bx d :
    WF t asg ->
    match insert_aabb t bx d with
    | XOk t' => WF t' (asg ++ [(filled _ _ t, bx, Some d)])
    | XErr e => e = XTree EAssert
    end.
  Proof.
    intros HW. unfold Bvh.insert_aabb.
    pose proof (insert_batch_spec C le cmin cmax czero go_left cost_ok datum t asg [bx]
                 (Some [Some d]) (order_none (filled _ _ t) 1) HW (Permutation_refl _)) as H.
    destruct (insert_batch _ _ _ _ _ _ _ t [bx] (Some [Some d]) (order_none (filled _ _ t) 1));
      simpl in *; auto. subst; auto.
  Qed.

  Lemma Forall2_app_one {A B} (R : A -> B -> Prop) l1 l2 a b :
    Forall2 R l1 l2 -> R a b -> Forall2 R (l1 ++ [a]) (l2 ++ [b]).
  Proof. intros H1 H2. apply Forall2_app; auto. Qed.

  Lemma Forall2_In_l {A B} (R : A -> B -> Prop) l1 l2 a :
    Forall2 R l1 l2 -> In a l1 -> exists b, In b l2 /\ R a b.
  Proof.
    induction 1; simpl; [tauto|]. intros [->|Hin]; eauto.
    destruct (IHForall2 Hin) as (b' & ? & ?); eauto.
  Qed.

  Lemma Forall2_In_r {A B} (R : A -> B -> Prop) l1 l2 b :
    Forall2 R l1 l2 -> In b l2 -> exists a, In a l1 /\ R a b.
  Proof.
    induction 1; simpl; [tauto|]. intros [->|Hin]; eauto.
    destruct (IHForall2 Hin) as (a' & ? & ?); eauto.
  Qed.

  Lemma entry_ok_snd hp asg cs :
    Forall2 (entry_ok hp) asg cs -> map (@snd _ _) asg = map Some cs.
  Proof.
    induction 1 as [|e fo asg cs (c & _ & _ & H) _ IH]; simpl; auto. rewrite H, IH; auto.
  Qed.

  (** ** update_collider_poses *)
  Lemma entry_ok_set hp asg done o c :
    Forall2 (entry_ok hp) asg done -> ~ In o (map snd done) ->
    Forall2 (entry_ok (set_nth hp o c)) asg done.
  Proof.
    induction 1 as [|e [f' o'] asg done (c' & H1 & H2 & H3) _ IH]; intros Hnin; constructor.
    - exists c'. simpl in *. split; auto.
      rewrite nth_error_set_nth_neq; [auto|]. intros <-. apply Hnin; auto.
    - apply IH. intros Hin; apply Hnin; simpl; auto.
  Qed.

  Lemma upd_loop_spec tm : forall cs hp t asg done,
    WF t asg -> Forall2 (entry_ok hp) asg done ->
    (forall o, In o (map snd cs) -> ~ In o (map snd done)) -> NoDup (map snd cs) ->
    match upd_loop tm cs hp t with
    | XErr e => e = XKey \/ e = XTree EAssert \/ e = XIndex
    | XOk (hp', t') =>
      exists asg', WF t' asg' /\ Forall2 (entry_ok hp') asg' (done ++ cs) /\
        length hp' = length hp /\
        (forall f o, In (f, o) cs ->
           exists p c, tm f = Some p /\ nth_error hp o = Some c /\ nth_error hp' o = Some (upd c p)) /\
        (forall o, ~ In o (map snd cs) -> nth_error hp' o = nth_error hp o)
    end.
  Proof.
    induction cs as [|[f o] cs IH]; intros hp t asg done HW HF Hdis Hnd; simpl.
    - exists asg. rewrite app_nil_r. repeat split; auto. tauto.
    - destruct (tm f) as [p|] eqn:Etm; [|auto].
      unfold hget. destruct (nth_error hp o) as [c|] eqn:Ec; simpl; [|auto].
      pose proof (insert_aabb_spec t asg (aabb_of (upd c p)) (f, o) HW) as Hins.
      destruct (insert_aabb t (aabb_of (upd c p)) (f, o)) as [t'|e]; simpl; [|subst; auto].
      assert (Ho : o < length hp) by (apply nth_error_Some; congruence).
      inversion Hnd as [|? ? Hnin Hnd']; subst.
      assert (HF1 : Forall2 (entry_ok (set_nth hp o (upd c p)))
                            (asg ++ [(filled _ _ t, aabb_of (upd c p), Some (f, o))]) (done ++ [(f, o)])).
      { apply Forall2_app_one.
        - apply entry_ok_set; auto. apply Hdis; simpl; auto.
        - exists (upd c p). simpl. rewrite nth_error_set_nth_eq; auto. }
      assert (Hdis1 : forall o', In o' (map snd cs) -> ~ In o' (map snd (done ++ [(f, o)]))).
      { intros o' Hin. rewrite map_app, in_app_iff. simpl. intros [Hd|[<-|[]]].
        - apply (Hdis o'); simpl; auto.
        - auto. }
      specialize (IH (set_nth hp o (upd c p)) t' _ _ Hins HF1 Hdis1 Hnd').
      destruct (upd_loop tm cs (set_nth hp o (upd c p)) t') as [[hp' t'']|e]; [|exact IH].
      destruct IH as (asg' & HW' & HF' & Hlen & Hupd & Hkeep).
      exists asg'. rewrite <- app_assoc in HF'. simpl in HF'.
      rewrite length_set_nth in Hlen. repeat split; auto.
      + intros f' o' [E|Hin].
        * inversion E; subst. exists p, c. repeat split; auto.
          rewrite Hkeep; auto. apply nth_error_set_nth_eq; auto.
        * destruct (Hupd f' o' Hin) as (p' & c' & Hp & Hc & Hc').
          exists p', c'. repeat split; auto.
          rewrite nth_error_set_nth_neq in Hc; auto.
          intros <-. apply Hnin. apply in_map_iff. exists (f', o); auto.
      + intros o' Hnot. rewrite Hkeep by (intros Hin; apply Hnot; simpl; auto).
        apply nth_error_set_nth_neq. intros <-. apply Hnot; simpl; auto.
  Qed.

  Notation cs_ st := (colliders C frame coll pose st).
  Notation heap_ st := (heap C frame coll pose st).
  Notation tmap_ st := (tmap C frame coll pose st).
  Notation wls_ st := (wls C frame coll pose st).
  Notation atree_ st := (atree C frame coll pose st).

  Theorem update_poses_spec st st' :
    NoDup (map fst (cs_ st)) -> NoDup (map snd (cs_ st)) ->
    update_collider_poses st = XOk st' ->
    Inv st' /\ cs_ st' = cs_ st /\ tmap_ st' = tmap_ st /\ wls_ st' = wls_ st /\
    length (heap_ st') = length (heap_ st) /\
    (forall f o, In (f, o) (cs_ st) ->
       exists p c, tmap_ st f = Some p /\ nth_error (heap_ st) o = Some c /\
                   nth_error (heap_ st') o = Some (upd c p)) /\
    (forall o, ~ In o (map snd (cs_ st)) -> nth_error (heap_ st') o = nth_error (heap_ st) o).
  Proof.
    intros Hk Hid. unfold Bvh.update_collider_poses.
    pose proof (upd_loop_spec (tmap_ st) (cs_ st) (heap_ st) (empty_tree C datum) [] []
                  (WF_empty C le cmin cmax czero go_left cost_ok datum) (Forall2_nil _)
                  (fun o _ H => H) Hid) as H.
    destruct (upd_loop (tmap_ st) (cs_ st) (heap_ st) (empty_tree C datum)) as [[hp t]|e]; simpl;
      [|discriminate].
    intros E; inversion E; subst; clear E. simpl.
    destruct H as (asg & HW & HF & Hlen & Hupd & Hkeep). simpl in HF.
    repeat split; auto. exists asg. simpl. auto.
  Qed.

  (** the only ways update_collider_poses can raise *)
  Theorem update_poses_errors st e :
    NoDup (map snd (cs_ st)) -> update_collider_poses st = XErr e ->
    e = XKey \/ e = XTree EAssert \/ e = XIndex.
  Proof.
    intros Hid. unfold Bvh.update_collider_poses.
    pose proof (upd_loop_spec (tmap_ st) (cs_ st) (heap_ st) (empty_tree C datum) [] []
                  (WF_empty C le cmin cmax czero go_left cost_ok datum) (Forall2_nil _)
                  (fun o _ H => H) Hid) as H.
    destruct (upd_loop (tmap_ st) (cs_ st) (heap_ st) (empty_tree C datum)) as [[hp t]|e']; simpl.
    - discriminate.
    - intros E; inversion E; subst; auto.
  Qed.

  (** ** add_collider *)
  Lemma Inv_init hp tm : Inv (init C frame coll pose hp tm).
  Proof.
    exists []. simpl. split; [apply (WF_empty C le cmin cmax czero go_left cost_ok datum)|].
    split; constructor.
  Qed.

  (** a new frame name keeps the invariant (the collider is inserted at its own current aabb) *)
  Theorem add_collider_Inv st f o st' :
    Inv st -> ~ In f (map fst (cs_ st)) -> add_collider st f o = XOk st' ->
    Inv st' /\ cs_ st' = cs_ st ++ [(f, o)] /\ heap_ st' = heap_ st /\ tmap_ st' = tmap_ st /\
    wls_ st' = wls_ st.
  Proof.
    intros (asg & HW & HF & Hk) Hf. unfold Bvh.add_collider, hget.
    destruct (nth_error (heap_ st) o) as [c|] eqn:Ec; simpl; [|discriminate].
    pose proof (insert_aabb_spec (atree_ st) asg (aabb_of c) (f, o) HW) as Hins.
    destruct (insert_aabb (atree_ st) (aabb_of c) (f, o)) as [t'|e]; simpl; [|discriminate].
    intros E; inversion E; subst; clear E. simpl.
    rewrite (dict_set_fresh _ _ feqb feqb_spec) by auto.
    repeat split; auto.
    eexists. simpl. split; [exact Hins|]. split.
    - apply Forall2_app_one; auto. exists c. simpl. auto.
    - rewrite map_app. simpl. apply NoDup_app_intro; auto.
      + constructor; auto. constructor.
      + intros x Hx [<-|[]]. auto.
  Qed.

  (** dict keys stay unique whatever happens *)
  Lemma step_keys st o st' :
    NoDup (map fst (cs_ st)) -> step st o = XOk st' -> NoDup (map fst (cs_ st')).
  Proof.
    intros Hk. destruct o as [f i|t|w| |f]; simpl.
    - unfold Bvh.add_collider. destruct (hget coll (heap_ st) i); simpl; [|discriminate].
      destruct (insert_aabb (atree_ st) _ (f, i)); simpl; [|discriminate].
      intros E; inversion E; subst; simpl. apply (dict_set_NoDup _ _ feqb feqb_spec); auto.
    - intros E; inversion E; subst; simpl; auto.
    - intros E; inversion E; subst; simpl; auto.
    - unfold Bvh.update_collider_poses.
      destruct (upd_loop _ _ _ _) as [[hp t]|e]; simpl; [|discriminate].
      intros E; inversion E; subst; simpl; auto.
    - unfold Bvh.remove_collider. destruct (dict_mem feqb (cs_ st) f); [|discriminate].
      intros E; inversion E; subst; simpl. apply dict_pop_NoDup; auto.
  Qed.

  Lemma run_keys h : forall st st',
    NoDup (map fst (cs_ st)) -> run_ops st h = XOk st' -> NoDup (map fst (cs_ st')).
  Proof.
    induction h as [|o h IH]; intros st st' Hk; simpl.
    - intros E; inversion E; subst; auto.
    - destruct (step st o) as [st1|e] eqn:E1; simpl; [|discriminate].
      intros E. eapply IH; [|exact E]. eapply step_keys; eauto.
  Qed.

  (** ** what the invariant gives *)
  Lemma NoDup_map_eq {A B} (g : A -> B) (l : list A) x y :
    NoDup (map g l) -> In x l -> In y l -> g x = g y -> x = y.
  Proof.
    induction l as [|a l IH]; simpl; [tauto|]. intros Hn Hx Hy E. inversion Hn; subst.
    destruct Hx as [->|Hx], Hy as [->|Hy]; auto.
    - exfalso. apply H1. rewrite E. apply in_map; auto.
    - exfalso. apply H1. rewrite <- E. apply in_map; auto.
  Qed.

  Lemma Inv_snd_NoDup hp asg cs :
    Forall2 (entry_ok hp) asg cs -> NoDup (map fst cs) -> NoDup (map (@snd _ _) asg).
  Proof.
    intros HF Hk. rewrite (entry_ok_snd _ _ _ HF).
    apply NoDup_map_inj_on; [eapply NoDup_map_NoDup; eauto|]. intros x y _ _ E; congruence.
  Qed.

  Lemma rows_of_spec ex l :
    (forall i, In i l -> exists d, nth_error ex i = Some (Some d)) ->
    exists rows, rows_of frame ex l = XOk rows /\
                 map (fun d : datum => Some (Some d)) rows = map (nth_error ex) l.
  Proof.
    induction l as [|i l IH]; intros H; simpl.
    - exists []; auto.
    - destruct (H i (or_introl eq_refl)) as (d & Hd). rewrite Hd.
      destruct IH as (rows & Hr & Hm); [intros; apply H; simpl; auto|].
      rewrite Hr. simpl. exists (d :: rows). simpl. rewrite Hm. auto.
  Qed.

  Lemma pop_all_spec wl : forall d : list (frame * oid),
    NoDup (map fst d) ->
    NoDup (map fst (pop_all frame feqb d wl)) /\
    forall f o, In (f, o) (pop_all frame feqb d wl) <-> In (f, o) d /\ ~ In f wl.
  Proof.
    unfold pop_all. induction wl as [|w wl IH]; intros d Hn; simpl.
    - split; auto. tauto.
    - rewrite (dict_pop_filter _ _ feqb feqb_spec) by auto.
      destruct (IH (filter (fun kv => negb (feqb (fst kv) w)) d)) as (H1 & H2).
      { apply NoDup_map_filter; auto. }
      split; auto. intros f o. rewrite H2, filter_In. simpl.
      destruct (feqb f w) eqn:E; simpl.
      + apply feqb_spec in E. subst. intuition discriminate.
      + assert (f <> w) by (intros ->; rewrite (keqb_refl _ feqb feqb_spec) in E; discriminate).
        intuition.
  Qed.

  (** ** aabb_overlapping_colliders: exactly the colliders whose current AABB overlaps the
      query box, minus the whitelisted frames, each once *)
  Theorem overlapping_colliders_exact st q wl :
    Inv st ->
    exists r, aabb_overlapping_colliders st q wl = XOk r /\ NoDup (map fst r) /\
      forall f o, In (f, o) r <->
                  In (f, o) (cs_ st) /\ ~ In f wl /\
                  exists c, nth_error (heap_ st) o = Some c /\ overlap (aabb_of c) q = true.
  Proof.
    intros (asg & HW & HF & Hk).
    destruct (overlaps_aabb_WF C le cmin cmax datum le_trans cmin_l cmin_r cmax_l cmax_r
                _ asg q HW) as (l & Hl & HNl & HP).
    pose proof (Inv_snd_NoDup _ _ _ HF Hk) as Hsnd.
    destruct HW as (ot & _ & _ & _ & _ & _ & _ & Hlook).
    assert (Hl_iff : forall i, In i l <-> exists e, In e asg /\ eidx e = i /\ overlap (ebox e) q = true).
    { intros i. split.
      - intros Hi. eapply Permutation_in in Hi; [|exact HP].
        apply in_map_iff in Hi as (e & He & Hin). apply filter_In in Hin as (Hin & Ho). eauto.
      - intros (e & Hin & He & Ho). eapply Permutation_in; [symmetry; exact HP|].
        apply in_map_iff. exists e. split; auto. apply filter_In; auto. }
    assert (Hrow : forall e, In e asg ->
               exists fo, In fo (cs_ st) /\ entry_ok (heap_ st) e fo /\
                          nth_error (ext _ _ (atree_ st)) (eidx e) = Some (Some fo)).
    { intros e Hin. destruct (Forall2_In_l _ _ _ _ HF Hin) as (fo & Hfo & Hok).
      exists fo. split; auto. split; auto. destruct e as [[i b] d].
      destruct (Hlook _ _ _ Hin) as (_ & Hx). destruct Hok as (c & _ & _ & Hd). simpl in *.
      unfold AabbTreeProofs.eidx. simpl.
      rewrite Hx, Hd. reflexivity. }
    destruct (rows_of_spec (ext _ _ (atree_ st)) l) as (rows & Hrows & Hmap).
    { intros i Hi. apply Hl_iff in Hi as (e & Hin & <- & _).
      destruct (Hrow e Hin) as (fo & _ & _ & Hx). eauto. }
    assert (Hrows_iff : forall d, In d rows <->
              exists i, In i l /\ nth_error (ext _ _ (atree_ st)) i = Some (Some d)).
    { intros d. split.
      - intros Hd. apply (in_map (fun d : datum => Some (Some d))) in Hd. rewrite Hmap in Hd.
        apply in_map_iff in Hd as (i & Hi & Hin). eauto.
      - intros (i & Hi & Hx). apply (in_map (nth_error (ext _ _ (atree_ st)))) in Hi.
        rewrite <- Hmap, Hx in Hi. apply in_map_iff in Hi as (d' & E & Hd'). congruence. }
    assert (HNrows : NoDup rows).
    { apply (NoDup_map_NoDup (fun d : datum => Some (Some d))). rewrite Hmap.
      apply NoDup_map_inj_on; auto. intros i j Hi Hj E.
      apply Hl_iff in Hi as (e1 & Hin1 & <- & _). apply Hl_iff in Hj as (e2 & Hin2 & <- & _).
      destruct (Hrow e1 Hin1) as (fo1 & _ & (c1 & _ & _ & Hs1) & Hx1).
      destruct (Hrow e2 Hin2) as (fo2 & _ & (c2 & _ & _ & Hs2) & Hx2).
      f_equal. apply (NoDup_map_eq (@snd _ _) asg); auto. congruence. }
    assert (Hrows_cs : forall f o, In (f, o) rows <->
              In (f, o) (cs_ st) /\
              exists c, nth_error (heap_ st) o = Some c /\ overlap (aabb_of c) q = true).
    { intros f o. rewrite Hrows_iff. split.
      - intros (i & Hi & Hx). apply Hl_iff in Hi as (e & Hin & <- & Ho).
        destruct (Hrow e Hin) as (fo & Hfo & (c & Hc & Hb & _) & Hx').
        assert (fo = (f, o)) by congruence. subst fo. split; auto. exists c. simpl in Hc.
        split; auto. congruence.
      - intros (Hin & c & Hc & Ho).
        destruct (Forall2_In_r _ _ _ _ HF Hin) as (e & He & (c' & Hc' & Hb & Hs)).
        simpl in Hc'. assert (c' = c) by congruence. subst c'.
        exists (eidx e). split.
        + apply Hl_iff. exists e. repeat split; auto. congruence.
        + destruct (Hrow e He) as (fo & _ & (c2 & _ & _ & Hs2) & Hx).
          rewrite Hs in Hs2. inversion Hs2; subst fo. exact Hx. }
    assert (HNk : NoDup (map fst rows)).
    { apply (NoDup_incl_fst rows (cs_ st)); auto. intros [f o] Hin. apply Hrows_cs in Hin. tauto. }
    unfold Bvh.aabb_overlapping_colliders. rewrite Hl. simpl. rewrite Hrows. simpl.
    rewrite (dict_of_NoDup _ _ feqb feqb_spec) by auto.
    destruct (pop_all_spec wl rows HNk) as (Hp1 & Hp2).
    eexists. split; [reflexivity|]. split; auto.
    intros f o. rewrite Hp2, Hrows_cs. tauto.
  Qed.

  (** ** the tree-against-tree queries *)
  Lemma Inv_row (t : tree) asg hp cs :
    WF t asg -> Forall2 (entry_ok hp) asg cs ->
    forall e, In e asg ->
      exists fo, In fo cs /\ entry_ok hp e fo /\ nth_error (ext _ _ t) (eidx e) = Some (Some fo).
  Proof.
    intros (ot & _ & _ & _ & _ & _ & _ & Hlook) HF e Hin.
    destruct (Forall2_In_l _ _ _ _ HF Hin) as (fo & Hfo & Hok).
    exists fo. split; auto. split; auto. destruct e as [[i b] d].
    destruct (Hlook _ _ _ Hin) as (_ & Hx). destruct Hok as (c & _ & _ & Hd). simpl in *.
    unfold AabbTreeProofs.eidx. simpl. rewrite Hx, Hd. reflexivity.
  Qed.

  Definition keep (skip : bool) (ij : nat * nat) : bool := negb (skip && (fst ij =? snd ij)).

  Lemma data_pairs_spec (t1 t2 : tree) skip l :
    (forall i j, In (i, j) l -> i < length (ext _ _ t1) /\ j < length (ext _ _ t2)) ->
    exists r, data_pairs C frame t1 t2 skip l = XOk r /\
      map (fun ab : option datum * option datum => (Some (fst ab), Some (snd ab))) r =
      map (fun ij => (nth_error (ext _ _ t1) (fst ij), nth_error (ext _ _ t2) (snd ij)))
          (filter (keep skip) l).
  Proof.
    induction l as [|[i j] l IH]; intros H; simpl.
    - exists []; auto.
    - destruct IH as (r & Hr & Hm); [intros; apply H; simpl; auto|].
      unfold keep at 1. simpl. destruct (skip && (i =? j)); simpl.
      + exists r; auto.
      + destruct (H i j (or_introl eq_refl)) as (Hi & Hj).
        unfold ext_at.
        destruct (nth_error (ext _ _ t1) i) as [a|] eqn:Ea; [|apply nth_error_None in Ea; lia].
        destruct (nth_error (ext _ _ t2) j) as [b|] eqn:Eb; [|apply nth_error_None in Eb; lia].
        simpl. rewrite Hr. simpl. exists ((a, b) :: r). simpl. rewrite Hm. auto.
  Qed.

  Lemma pairs_exact (t1 t2 : tree) asg1 asg2 hp1 hp2 cs1 cs2 skip :
    WF t1 asg1 -> Forall2 (entry_ok hp1) asg1 cs1 -> NoDup (map fst cs1) ->
    WF t2 asg2 -> Forall2 (entry_ok hp2) asg2 cs2 -> NoDup (map fst cs2) ->
    (skip = true -> t1 = t2 /\ asg1 = asg2 /\ cs1 = cs2) ->
    exists r, (pairs <~ of_tree (overlaps_aabb_tree C le datum t1 t2) ;;
               data_pairs C frame t1 t2 skip pairs) = XOk r /\ NoDup r /\
      forall a b, In (a, b) r <->
        exists f o g o2 c c2,
          a = Some (f, o) /\ b = Some (g, o2) /\ In (f, o) cs1 /\ In (g, o2) cs2 /\
          nth_error hp1 o = Some c /\ nth_error hp2 o2 = Some c2 /\
          overlap (aabb_of c) (aabb_of c2) = true /\ (skip = true -> f <> g).
  Proof.
    intros HW1 HF1 Hk1 HW2 HF2 Hk2 Hskip.
    destruct (overlaps_aabb_tree_WF C le cmin cmax datum le_trans cmin_l cmin_r cmax_l cmax_r
                t1 asg1 t2 asg2 HW1 HW2) as (l & Hl & HNl & Hiff).
    pose proof (Inv_row t1 asg1 hp1 cs1 HW1 HF1) as Hrow1.
    pose proof (Inv_row t2 asg2 hp2 cs2 HW2 HF2) as Hrow2.
    pose proof (Inv_snd_NoDup _ _ _ HF1 Hk1) as Hsnd1.
    pose proof (Inv_snd_NoDup _ _ _ HF2 Hk2) as Hsnd2.
    pose proof (WF_NoDup C cmin cmax datum _ _ HW1) as Hidx1.
    pose proof (WF_NoDup C cmin cmax datum _ _ HW2) as Hidx2.
    destruct (data_pairs_spec t1 t2 skip l) as (r & Hr & Hm).
    { intros i j Hin. apply Hiff in Hin as (e1 & e2 & H1 & H2 & <- & <- & _).
      destruct (Hrow1 e1 H1) as (? & _ & _ & Hx1). destruct (Hrow2 e2 H2) as (? & _ & _ & Hx2).
      split; apply nth_error_Some; congruence. }
    rewrite Hl. simpl. exists r. split; auto.
    (* injectivity of row -> payload on the leaves of each tree *)
    assert (Hinj1 : forall e e', In e asg1 -> In e' asg1 ->
              nth_error (ext _ _ t1) (eidx e) = nth_error (ext _ _ t1) (eidx e') -> e = e').
    { intros e e' H H' E. destruct (Hrow1 e H) as (fo & _ & (c & _ & _ & Hs) & Hx).
      destruct (Hrow1 e' H') as (fo' & _ & (c' & _ & _ & Hs') & Hx').
      apply (NoDup_map_eq (@snd _ _) asg1); auto. rewrite Hs, Hs'. congruence. }
    assert (Hinj2 : forall e e', In e asg2 -> In e' asg2 ->
              nth_error (ext _ _ t2) (eidx e) = nth_error (ext _ _ t2) (eidx e') -> e = e').
    { intros e e' H H' E. destruct (Hrow2 e H) as (fo & _ & (c & _ & _ & Hs) & Hx).
      destruct (Hrow2 e' H') as (fo' & _ & (c' & _ & _ & Hs') & Hx').
      apply (NoDup_map_eq (@snd _ _) asg2); auto. rewrite Hs, Hs'. congruence. }
    split.
    - apply (NoDup_map_NoDup (fun ab : option datum * option datum => (Some (fst ab), Some (snd ab)))).
      rewrite Hm. apply NoDup_map_inj_on; [apply NoDup_filter; auto|].
      intros [i j] [i' j'] Hin Hin' E. simpl in E.
      apply filter_In in Hin as (Hin & _). apply filter_In in Hin' as (Hin' & _).
      apply Hiff in Hin as (e1 & e2 & H1 & H2 & <- & <- & _).
      apply Hiff in Hin' as (e1' & e2' & H1' & H2' & <- & <- & _).
      inversion E as [[E1 E2]].
      rewrite (Hinj1 e1 e1' H1 H1' E1), (Hinj2 e2 e2' H2 H2' E2). reflexivity.
    - intros a b.
      assert (Hin_r : In (a, b) r <->
                exists i j, In (i, j) l /\ keep skip (i, j) = true /\
                            nth_error (ext _ _ t1) i = Some a /\ nth_error (ext _ _ t2) j = Some b).
      { split.
        - intros Hin.
          apply (in_map (fun ab : option datum * option datum => (Some (fst ab), Some (snd ab)))) in Hin.
          rewrite Hm in Hin. apply in_map_iff in Hin as ([i j] & E & Hf).
          apply filter_In in Hf as (Hf & Hkp). simpl in E. inversion E. eauto 7.
        - intros (i & j & Hin & Hkp & Ha & Hb).
          assert (Hf : In (i, j) (filter (keep skip) l)) by (apply filter_In; auto).
          apply (in_map (fun ij => (nth_error (ext _ _ t1) (fst ij), nth_error (ext _ _ t2) (snd ij)))) in Hf.
          rewrite <- Hm in Hf. simpl in Hf. rewrite Ha, Hb in Hf.
          apply in_map_iff in Hf as ([a' b'] & E & Hin'). simpl in E. inversion E; subst; auto. }
      rewrite Hin_r. split.
      + intros (i & j & Hin & Hkp & Ha & Hb).
        apply Hiff in Hin as (e1 & e2 & H1 & H2 & <- & <- & Ho).
        destruct (Hrow1 e1 H1) as ([f o] & Hfo1 & (c & Hc & Hb1 & Hs1) & Hx1).
        destruct (Hrow2 e2 H2) as ([g o2] & Hfo2 & (c2 & Hc2 & Hb2 & Hs2) & Hx2).
        exists f, o, g, o2, c, c2. simpl in *.
        rewrite Hx1 in Ha. rewrite Hx2 in Hb. inversion Ha. inversion Hb.
        repeat split; auto.
        * rewrite <- Hb1, <- Hb2. exact Ho.
        * intros Hs ->. destruct (Hskip Hs) as (-> & -> & ->).
          assert (o = o2) by (eapply NoDup_fst_inj; eauto). subst o2.
          assert (e1 = e2).
          { apply (NoDup_map_eq (@snd _ _) asg2); auto. rewrite Hs1, Hs2. reflexivity. }
          subst e2. unfold keep in Hkp. rewrite Hs in Hkp. simpl in Hkp.
          rewrite Nat.eqb_refl in Hkp. discriminate.
      + intros (f & o & g & o2 & c & c2 & -> & -> & Hin1 & Hin2 & Hc & Hc2 & Ho & Hne).
        destruct (Forall2_In_r _ _ _ _ HF1 Hin1) as (e1 & He1 & (c' & Hc' & Hb1 & Hs1)).
        destruct (Forall2_In_r _ _ _ _ HF2 Hin2) as (e2 & He2 & (c2' & Hc2' & Hb2 & Hs2)).
        simpl in Hc', Hc2'. assert (c' = c) by congruence. assert (c2' = c2) by congruence. subst.
        exists (eidx e1), (eidx e2).
        destruct (Hrow1 e1 He1) as (fo1 & _ & (? & _ & _ & Hs1') & Hx1).
        destruct (Hrow2 e2 He2) as (fo2 & _ & (? & _ & _ & Hs2') & Hx2).
        rewrite Hs1 in Hs1'. rewrite Hs2 in Hs2'. inversion Hs1'. inversion Hs2'. subst fo1 fo2.
        repeat split; auto.
        * apply Hiff. exists e1, e2. repeat split; auto. rewrite Hb1, Hb2. exact Ho.
        * unfold keep. simpl. destruct skip; simpl; auto.
          destruct (Nat.eqb_spec (eidx e1) (eidx e2)) as [E|E]; auto.
          exfalso. destruct (Hskip eq_refl) as (-> & -> & ->).
          assert (e1 = e2) by (apply (NoDup_map_eq eidx asg2); auto). subst e2.
          rewrite Hs1 in Hs2. inversion Hs2. apply (Hne eq_refl); auto.
  Qed.

  (** [aabb_overlapping_with_other_bvh]: exactly the pairs (collider of self, collider of
      other) whose current AABBs overlap, each once, all payloads present *)
  Theorem other_bvh_exact st1 st2 :
    Inv st1 -> Inv st2 ->
    exists r, aabb_overlapping_with_other_bvh st1 st2 = XOk r /\ NoDup r /\
      forall a b, In (a, b) r <->
        exists f o g o2 c c2,
          a = Some (f, o) /\ b = Some (g, o2) /\ In (f, o) (cs_ st1) /\ In (g, o2) (cs_ st2) /\
          nth_error (heap_ st1) o = Some c /\ nth_error (heap_ st2) o2 = Some c2 /\
          overlap (aabb_of c) (aabb_of c2) = true.
  Proof.
    intros (asg1 & HW1 & HF1 & Hk1) (asg2 & HW2 & HF2 & Hk2).
    destruct (pairs_exact _ _ _ _ _ _ _ _ false HW1 HF1 Hk1 HW2 HF2 Hk2) as (r & Hr & Hn & Hiff);
      [discriminate|].
    exists r. split; [exact Hr|]. split; auto.
    intros a b. rewrite Hiff. split.
    - intros (f & o & g & o2 & c & c2 & H). exists f, o, g, o2, c, c2. tauto.
    - intros (f & o & g & o2 & c & c2 & H). exists f, o, g, o2, c, c2.
      repeat split; try tauto. discriminate.
  Qed.

  (** [aabb_overlapping_with_self]: exactly the ORDERED pairs of two different frames whose
      current AABBs overlap — so every unordered pair appears in both orientations and no
      collider is paired with itself *)
  Theorem self_pairs_exact st :
    Inv st ->
    exists r, aabb_overlapping_with_self st = XOk r /\ NoDup r /\
      forall a b, In (a, b) r <->
        exists f o g o2 c c2,
          a = Some (f, o) /\ b = Some (g, o2) /\ In (f, o) (cs_ st) /\ In (g, o2) (cs_ st) /\
          nth_error (heap_ st) o = Some c /\ nth_error (heap_ st) o2 = Some c2 /\
          overlap (aabb_of c) (aabb_of c2) = true /\ f <> g.
  Proof.
    intros (asg & HW & HF & Hk).
    destruct (pairs_exact _ _ _ _ _ _ _ _ true HW HF Hk HW HF Hk) as (r & Hr & Hn & Hiff); [auto|].
    exists r. split; [exact Hr|]. split; auto.
    intros a b. rewrite Hiff. split.
    - intros (f & o & g & o2 & c & c2 & H). exists f, o, g, o2, c, c2. intuition.
    - intros (f & o & g & o2 & c & c2 & H). exists f, o, g, o2, c, c2. intuition.
  Qed.

  Corollary self_pairs_symmetric st r :
    Inv st -> aabb_overlapping_with_self st = XOk r -> forall a b, In (a, b) r -> In (b, a) r.
  Proof.
    intros HI Hr a b Hin. destruct (self_pairs_exact st HI) as (r' & Hr' & _ & Hiff).
    rewrite Hr in Hr'. inversion Hr'; subst r'.
    apply Hiff in Hin as (f & o & g & o2 & c & c2 & -> & -> & H1 & H2 & H3 & H4 & H5 & H6).
    apply Hiff. exists g, o2, f, o, c2, c. repeat split; auto.
    rewrite (overlap_sym C le). exact H5.
  Qed.

  (** ** histories: any operations, then update_collider_poses *)
  Lemma run_ops_app h1 : forall h2 st,
    run_ops st (h1 ++ h2) = (st' <~ run_ops st h1 ;; run_ops st' h2).
  Proof.
    induction h1 as [|o h1 IH]; intros h2 st; simpl; auto.
    destruct (step st o); simpl; auto.
  Qed.

  (** [fill_tree_with_colliders] is the history add_collider* ; whitelists.update ; update_collider_poses *)
  Lemma fill_as_ops objs w : forall st,
    fill_tree_with_colliders C cmin cmax czero go_left cost_ok frame feqb coll pose upd aabb_of st objs w =
    run_ops st (map (fun fo => Add frame pose (fst fo) (snd fo)) objs ++
                [SetWl frame pose w; UpdatePoses frame pose]).
  Proof.
    unfold fill_tree_with_colliders.
    induction objs as [|[f o] objs IH]; intros st; simpl.
    - destruct (update_collider_poses (set_whitelists C frame feqb coll pose st w)); reflexivity.
    - destruct (add_collider st f o) as [st1|e]; simpl; auto.
  Qed.

  (** what C14 provides about colliders: a class [good] of collider objects closed under
      update_pose, on which update_pose puts the object "at" the given pose *)
  Variable good : coll -> Prop.
  Variable at_pose : coll -> pose -> Prop.
  Hypothesis upd_good : forall c p, good c -> good (upd c p).
  Hypothesis upd_at : forall c p, good c -> at_pose (upd c p) p.

  Lemma Forall_set_nth {A} (P : A -> Prop) l i x : Forall P l -> P x -> Forall P (set_nth l i x).
  Proof.
    intros H Hx. revert i. induction H; intros [|i]; simpl; auto.
  Qed.

  Lemma upd_loop_good tm : forall cs hp t hp' t',
    Forall good hp -> upd_loop tm cs hp t = XOk (hp', t') -> Forall good hp'.
  Proof.
    induction cs as [|[f o] cs IH]; intros hp t hp' t' Hg; simpl.
    - intros E; inversion E; subst; auto.
    - destruct (tm f) as [p|]; [|discriminate].
      unfold hget. destruct (nth_error hp o) as [c|] eqn:Ec; simpl; [|discriminate].
      destruct (insert_aabb t (aabb_of (upd c p)) (f, o)) as [t1|e]; simpl; [|discriminate].
      apply IH. apply Forall_set_nth; auto. apply upd_good.
      eapply Forall_forall in Hg; [exact Hg|]. eapply nth_error_In; eauto.
  Qed.

  Lemma step_good st o st' : Forall good (heap_ st) -> step st o = XOk st' -> Forall good (heap_ st').
  Proof.
    intros Hg. destruct o as [f i|t|w| |f]; simpl.
    - unfold Bvh.add_collider. destruct (hget coll (heap_ st) i); simpl; [|discriminate].
      destruct (insert_aabb (atree_ st) _ (f, i)); simpl; [|discriminate].
      intros E; inversion E; subst; simpl; auto.
    - intros E; inversion E; subst; simpl; auto.
    - intros E; inversion E; subst; simpl; auto.
    - unfold Bvh.update_collider_poses.
      destruct (upd_loop _ _ _ _) as [[hp t]|e] eqn:E1; simpl; [|discriminate].
      intros E; inversion E; subst; simpl. eapply upd_loop_good; eauto.
    - unfold Bvh.remove_collider. destruct (dict_mem feqb (cs_ st) f); [|discriminate].
      intros E; inversion E; subst; simpl; auto.
  Qed.

  Lemma run_good h : forall st st',
    Forall good (heap_ st) -> run_ops st h = XOk st' -> Forall good (heap_ st').
  Proof.
    induction h as [|o h IH]; intros st st' Hg; simpl.
    - intros E; inversion E; subst; auto.
    - destruct (step st o) as [st1|e] eqn:E1; simpl; [|discriminate].
      intros E. eapply IH; [|exact E]. eapply step_good; eauto.
  Qed.

  (** After ANY sequence of add_collider / transform changes / whitelist updates /
      update_collider_poses that ends with update_collider_poses and raises nothing, provided
      different frames hold different collider objects: the invariant holds (the tree is
      exactly the current AABBs of the registered colliders) and every collider is at the
      transform manager's current transform of its frame. *)
  Theorem history_poses_current st0 h st :
    NoDup (map fst (cs_ st0)) -> Forall good (heap_ st0) ->
    run_ops st0 (h ++ [UpdatePoses frame pose]) = XOk st ->
    NoDup (map snd (cs_ st)) ->
    Inv st /\
    forall f o, In (f, o) (cs_ st) ->
      exists p c, tmap_ st f = Some p /\ nth_error (heap_ st) o = Some c /\ at_pose c p.
  Proof.
    intros Hk Hg Hrun Hid. rewrite run_ops_app in Hrun.
    destruct (run_ops st0 h) as [st1|e] eqn:E1; simpl in Hrun; [|discriminate].
    destruct (update_collider_poses st1) as [st2|e] eqn:E2; simpl in Hrun; [|discriminate].
    inversion Hrun; subst st2; clear Hrun.
    pose proof (run_keys _ _ _ Hk E1) as Hk1.
    pose proof (run_good _ _ _ Hg E1) as Hg1.
    assert (Hcs : cs_ st = cs_ st1).
    { revert E2. unfold Bvh.update_collider_poses.
      destruct (upd_loop _ _ _ _) as [[hp t]|e]; simpl; [|discriminate].
      intros E; inversion E; subst; auto. }
    rewrite Hcs in Hid.
    destruct (update_poses_spec st1 st Hk1 Hid E2) as (HI & _ & Htm & _ & _ & Hupd & _).
    split; auto. intros f o Hin. rewrite Hcs in Hin.
    destruct (Hupd f o Hin) as (p & c & Hp & Hc & Hc'). exists p, (upd c p).
    rewrite Htm. repeat split; auto. apply upd_at.
    eapply Forall_forall in Hg1; [exact Hg1|]. eapply nth_error_In; eauto.
  Qed.
End BvhProofs.
