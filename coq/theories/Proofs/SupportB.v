From Coq Require Import Reals Lra Psatz Nsatz List.
From D3 Require Import Base.Ops Base.Vec Base.RVec Base.RVec2 Spec.Convex Spec.Shapes Model.Support Proofs.ShapesTac.
Import ListNotations.
Local Open Scope R_scope.

Theorem support_ellipsoid_correct (d : V3R) (T : Pose R) (radii : V3R) :
  0 < vx radii -> 0 < vy radii -> 0 < vz radii ->
  is_support (ellipsoid_set T radii) d (support_ellipsoid d T radii).
Proof.
  intros Ha Hb Hc. unfold support_ellipsoid, ellipsoid_set.
  apply image_support.
  set (ld := mulTV (rot T) d). clearbody ld. clear d T.
  unfold norm_vector. rops.
  set (w := vmul ld radii).
  case_eqb (norm w) 0 Hn.
  - apply norm_zero_iff in Hn.
    assert (Hld : ld = vzero).
    { subst w. destruct ld as [l0 l1 l2], radii as [a0 a1 a2]. vunfold. cbn [vx vy vz] in *. injection Hn as A B C. f_equal; nra. }
    rewrite Hn. subst ld. split.
    + unfold ellipsoid_K. destruct radii as [a0 a1 a2]. vunfold. cbn [vx vy vz] in *. unfold Rdiv. ring_simplify. lra.
    + intros x _. destruct x as [x0 x1 x2], radii as [a0 a1 a2]. vunfold. cbn [vx vy vz]. lra.
  - pose proof (norm_nonneg w) as Hp. pose proof (norm_sq w) as Hsq.
    assert (Hcs : forall y, dot y y <= 1 * 1 -> dot y w <= 1 * norm w) by (intros y Hy; apply cs3_radius; auto; lra).
    set (N := norm w) in *. clearbody N.
    split.
    + unfold ellipsoid_K.
      replace (vx (vmul (vdivs w N) radii) / vx radii * (vx (vmul (vdivs w N) radii) / vx radii) +
               vy (vmul (vdivs w N) radii) / vy radii * (vy (vmul (vdivs w N) radii) / vy radii) +
               vz (vmul (vdivs w N) radii) / vz radii * (vz (vmul (vdivs w N) radii) / vz radii))
        with (dot w w / (N * N)).
      * rewrite <- Hsq. replace (N * N / (N * N)) with 1 by (field; auto). lra.
      * clearbody w. destruct w as [w0 w1 w2], radii as [a0 a1 a2]. vunfold. cbn [vx vy vz] in *. field. repeat split; lra.
    + intros x Hx. unfold ellipsoid_K in Hx.
      set (y := V (vx x / vx radii) (vy x / vy radii) (vz x / vz radii)).
      assert (Hy : dot y y <= 1 * 1) by (subst y; vunfold; cbn [vx vy vz]; lra).
      apply Hcs in Hy.
      assert (E1 : dot y w = dot x ld).
      { subst y w. destruct x as [x0 x1 x2], ld as [l0 l1 l2], radii as [a0 a1 a2]. vunfold. cbn [vx vy vz] in *. field. repeat split; lra. }
      assert (E2 : dot (vmul (vdivs w N) radii) ld = dot w w / N).
      { subst w. destruct ld as [l0 l1 l2], radii as [a0 a1 a2]. vunfold. cbn [vx vy vz] in *. field. auto. }
      rewrite E2, <- Hsq. replace (N * N / N) with N by (field; auto). lra.
Qed.

Lemma cone_bound (r h lx ly lz : R) (x : V3R) :
  0 <= r -> 0 < h -> cone_K r h x ->
  exists lam, 0 <= lam <= 1 /\
    dot x (V lx ly lz) <= (1 - lam) * (r * R_sqrt.sqrt (lx * lx + ly * ly)) + lam * (h * lz).
Proof.
  intros Hr Hh [[Hz0 Hz1] Hrad]. destruct x as [x0 x1 x2]. cbn [vx vy vz] in *.
  exists (x2 / h).
  assert (Hl0 : 0 <= x2 / h) by (apply Rmult_le_pos; auto; left; apply Rinv_0_lt_compat; auto).
  assert (Hl1 : x2 / h <= 1).
  { apply Rmult_le_reg_r with h; auto. replace (x2 / h * h) with x2 by (field; lra). lra. }
  split; [lra|].
  assert (Ez : x2 = x2 / h * h) by (field; lra).
  set (lam := x2 / h) in *. clearbody lam.
  assert (Hq : 0 <= r * (1 - lam)) by nra.
  pose proof (cs2_radius x0 x1 lx ly (r * (1 - lam)) Hq Hrad) as Hcs.
  set (n := R_sqrt.sqrt (lx * lx + ly * ly)) in *. clearbody n.
  vunfold. cbn [vx vy vz]. rewrite Ez. nra.
Qed.

Theorem support_cone_correct (d : V3R) (T : Pose R) (r h : R) :
  0 <= r -> 0 < h -> is_support (cone_set T r h) d (support_cone d T r h).
Proof.
  intros Hr Hh. unfold support_cone, cone_set. apply image_support.
  set (ld := mulTV (rot T) d). clearbody ld. clear d T.
  destruct ld as [lx ly lz]. cbn [vx vy vz]. rops.
  assert (En : norm (V lx ly 0) = R_sqrt.sqrt (lx * lx + ly * ly)).
  { unfold norm. rops. f_equal. vunfold. cbn [vx vy vz]. ring. }
  rewrite En.
  assert (Hb : forall x, cone_K r h x -> exists lam, 0 <= lam <= 1 /\
    dot x (V lx ly lz) <= (1 - lam) * (r * R_sqrt.sqrt (lx * lx + ly * ly)) + lam * (h * lz))
    by (intros x Hx; apply cone_bound; auto).
  pose proof (sqrt_pos (lx * lx + ly * ly)) as Hn0.
  assert (Hsq : R_sqrt.sqrt (lx * lx + ly * ly) * R_sqrt.sqrt (lx * lx + ly * ly) = lx * lx + ly * ly)
    by (apply sqrt_sqrt; nra).
  set (n := R_sqrt.sqrt (lx * lx + ly * ly)) in *. clearbody n. clear En.
  assert (Hapex : cone_K r h (V 0 0 h)).
  { unfold cone_K. cbn [vx vy vz]. split; [lra|]. pose proof (sqr_nonneg (r * (1 - h / h))). lra. }
  case_eqb n 0 Hn.
  - subst n. assert (lx = 0) by nra. assert (ly = 0) by nra. subst lx ly.
    replace (dot (V 0 0 lz) (V 0 0 0)) with 0 by (vunfold; cbn [vx vy vz]; ring).
    case_leb (lz * h) 0 Ht.
    + split.
      * unfold cone_K. cbn [vx vy vz]. split; [lra|]. unfold Rdiv. nra.
      * intros x Hx. destruct (Hb x Hx) as (lam & Hl & Hle).
        replace (dot (V 0 0 0) (V 0 0 lz)) with 0 by (vunfold; cbn [vx vy vz]; ring). nra.
    + split; auto.
      intros x Hx. destruct (Hb x Hx) as (lam & Hl & Hle).
      replace (dot (V 0 0 h) (V 0 0 lz)) with (h * lz) by (vunfold; cbn [vx vy vz]; ring). nra.
  - assert (Hnp : 0 < n) by lra.
    assert (Ed : dot (V lx ly lz) (vscale (r / n) (V lx ly 0)) = r * n).
    { vunfold. cbn [vx vy vz]. replace (r * n) with (r / n * (n * n)) by (field; auto). rewrite Hsq. ring. }
    rewrite Ed.
    case_leb (lz * h) (r * n) Ht.
    + split.
      * unfold cone_K, vscale. rops. cbn [vx vy vz]. split; [lra|].
        replace (r / n * lx * (r / n * lx) + r / n * ly * (r / n * ly)) with (r * r * ((lx * lx + ly * ly) / (n * n))) by (field; auto).
        rewrite <- Hsq. replace (n * n / (n * n)) with 1 by (field; auto).
        replace (r / n * 0 / h) with 0 by (field; lra). nra.
      * intros x Hx. destruct (Hb x Hx) as (lam & Hl & Hle).
        rewrite (dot_comm (vscale _ _)), Ed. nra.
    + split; auto.
      intros x Hx. destruct (Hb x Hx) as (lam & Hl & Hle).
      replace (dot (V 0 0 h) (V lx ly lz)) with (h * lz) by (vunfold; cbn [vx vy vz]; ring). nra.
Qed.

Lemma ellipse_K_support (r0 r1 l0 l1 l2 : R) :
  0 < r0 -> 0 < r1 ->
  is_support (ellipse_K r0 r1) (V l0 l1 l2)
    (V (fst (norm_vector2 (r0 * l0) (r1 * l1)) * r0) (snd (norm_vector2 (r0 * l0) (r1 * l1)) * r1) 0).
Proof.
  intros H0 H1. unfold norm_vector2, norm2d. rops.
  set (w0 := r0 * l0). set (w1 := r1 * l1).
  pose proof (sqrt_pos (w0 * w0 + w1 * w1)) as Hp.
  assert (Hsq : R_sqrt.sqrt (w0 * w0 + w1 * w1) * R_sqrt.sqrt (w0 * w0 + w1 * w1) = w0 * w0 + w1 * w1)
    by (apply sqrt_sqrt; nra).
  assert (Hcs : forall a b, a * a + b * b <= 1 * 1 -> a * w0 + b * w1 <= 1 * R_sqrt.sqrt (w0 * w0 + w1 * w1))
    by (intros a b Hab; apply cs2_radius; auto; lra).
  set (N := R_sqrt.sqrt (w0 * w0 + w1 * w1)) in *. clearbody N.
  case_eqb N 0 Hn; cbn [fst snd].
  - subst N. assert (E0 : w0 = 0) by nra. assert (E1 : w1 = 0) by nra.
    rewrite E0, E1.
    assert (l0 = 0) by (subst w0; nra). assert (l1 = 0) by (subst w1; nra). subst l0 l1.
    split.
    + unfold ellipse_K. cbn [vx vy vz]. split; auto. unfold Rdiv. ring_simplify. lra.
    + intros x [Hz _]. destruct x as [x0 x1 x2]. cbn [vx vy vz] in *. subst x2.
      vunfold. cbn [vx vy vz]. lra.
  - assert (Hnp : 0 < N) by lra.
    split.
    + unfold ellipse_K. cbn [vx vy vz]. split; auto.
      replace (w0 / N * r0 / r0 * (w0 / N * r0 / r0) + w1 / N * r1 / r1 * (w1 / N * r1 / r1))
        with ((w0 * w0 + w1 * w1) / (N * N)) by (field; repeat split; lra).
      rewrite <- Hsq. replace (N * N / (N * N)) with 1 by (field; auto). lra.
    + intros x [Hz Hx]. destruct x as [x0 x1 x2]. cbn [vx vy vz] in *. subst x2.
      specialize (Hcs (x0 / r0) (x1 / r1)).
      assert (Hle : x0 / r0 * w0 + x1 / r1 * w1 <= 1 * N) by (apply Hcs; lra).
      vunfold. cbn [vx vy vz].
      replace (x0 * l0 + x1 * l1 + 0 * l2) with (x0 / r0 * w0 + x1 / r1 * w1) by (subst w0 w1; field; lra).
      replace (w0 / N * r0 * l0 + w1 / N * r1 * l1 + 0 * l2) with ((w0 * w0 + w1 * w1) / N) by (subst w0 w1; field; lra).
      rewrite <- Hsq. replace (N * N / N) with N by (field; auto). lra.
Qed.

Theorem support_ellipse_correct (d c a0 a1 : V3R) (r0 r1 : R) :
  0 < r0 -> 0 < r1 -> is_support (ellipse_set c a0 a1 r0 r1) d (support_ellipse d c a0 a1 r0 r1).
Proof.
  intros H0 H1. unfold support_ellipse, ellipse_set. rops.
  pose proof (ellipse_K_support r0 r1 (dot a0 d) (dot a1 d) (dot (cross a0 a1) d) H0 H1) as Hs.
  destruct (norm_vector2 (r0 * dot a0 d) (r1 * dot a1 d)) as [u v]. cbn [fst snd] in Hs.
  replace (vadd c (vadd (vscale (u * r0) a0) (vscale (v * r1) a1)))
    with (transform_point (P (of_cols a0 a1 (cross a0 a1)) c) (V (u * r0) (v * r1) 0)).
  - apply image_support. cbn [rot].
    replace (mulTV (of_cols a0 a1 (cross a0 a1)) d) with (V (dot a0 d) (dot a1 d) (dot (cross a0 a1) d)); auto.
  - unfold of_cols. clear. vsimp. f_equal; ring.
Qed.

Lemma plane_basis_branch1 (nx ny nz L : R) :
  L * L = nx * nx + nz * nz -> 0 < L -> nx * nx + ny * ny + nz * nz = 1 ->
  is_rotation (of_cols (V (- nz / L) 0 (nx / L))
                       (V (ny * (nx / L)) (nz * (- nz / L) - nx * (nx / L)) (- ny * (- nz / L)))
                       (V nx ny nz)).
Proof.
  intros HL Hp Hn. apply is_rotation_cols.
  unfold Rdiv. set (iL := / L). assert (HiL : iL * L = 1) by (subst iL; field; lra). clearbody iL. clear Hp.
  unfold cols_orthonormal, of_cols, col, nthv, dot. cbn [vx vy vz r0 r1 r2]. rops.
  repeat split; nsatz.
Qed.

Lemma plane_basis_branch2 (nx ny nz L : R) :
  L * L = ny * ny + nz * nz -> 0 < L -> nx * nx + ny * ny + nz * nz = 1 ->
  is_rotation (of_cols (V 0 (nz / L) (- ny / L))
                       (V (ny * (- ny / L) - nz * (nz / L)) (- nx * (- ny / L)) (nx * (nz / L)))
                       (V nx ny nz)).
Proof.
  intros HL Hp Hn. apply is_rotation_cols.
  unfold Rdiv. set (iL := / L). assert (HiL : iL * L = 1) by (subst iL; field; lra). clearbody iL. clear Hp.
  unfold cols_orthonormal, of_cols, col, nthv, dot. cbn [vx vy vz r0 r1 r2]. rops.
  repeat split; nsatz.
Qed.

Lemma sq_le_of_Rabs_le_Rabs (x y : R) : Rabs x <= Rabs y -> x * x <= y * y.
Proof. intros H. apply sq_le_of_Rabs_le in H. rewrite Rabs_sq in H. auto. Qed.

Theorem plane_basis_rotation (n : V3R) : dot n n = 1 ->
  is_rotation (of_cols (fst (plane_basis_from_normal n)) (snd (plane_basis_from_normal n)) n).
Proof.
  intros Hn. destruct n as [nx ny nz]. unfold plane_basis_from_normal. cbn [vx vy vz]. rops.
  assert (Hn' : nx * nx + ny * ny + nz * nz = 1) by (vunfold; cbn [vx vy vz] in Hn; lra).
  case_leb (Rabs ny) (Rabs nx) Ht; cbn [fst snd].
  - apply sq_le_of_Rabs_le_Rabs in Ht.
    assert (Hpos : 0 < nx * nx + nz * nz) by nra.
    pose proof (sqrt_lt_R0 _ Hpos) as HL. pose proof (sqrt_sqrt (nx * nx + nz * nz) ltac:(lra)) as HLL.
    set (L := R_sqrt.sqrt (nx * nx + nz * nz)) in *. clearbody L.
    apply plane_basis_branch1; auto.
  - assert (Ht' : Rabs nx <= Rabs ny) by lra. apply sq_le_of_Rabs_le_Rabs in Ht'.
    assert (Hpos : 0 < ny * ny + nz * nz) by nra.
    pose proof (sqrt_lt_R0 _ Hpos) as HL. pose proof (sqrt_sqrt (ny * ny + nz * nz) ltac:(lra)) as HLL.
    set (L := R_sqrt.sqrt (ny * ny + nz * nz)) in *. clearbody L.
    apply plane_basis_branch2; auto.
Qed.

Lemma is_support_ext (A B : set3) (d s : V3R) :
  (forall p, A p <-> B p) -> is_support A d s -> is_support B d s.
Proof.
  intros H [Hs Hm]. split.
  - apply H; auto.
  - intros x Hx. apply Hm. apply H; auto.
Qed.

Lemma disk_K_support_zero (r px py pz : R) :
  0 <= r -> norm (V px py 0) = 0 -> is_support (disk_K r) (V px py pz) vzero.
Proof.
  intros Hr Hn. apply norm_zero_iff in Hn. unfold vzero in Hn. rops. injection Hn as -> ->.
  split.
  - unfold disk_K, vzero. rops. cbn [vx vy vz]. split; auto. nra.
  - intros x [Hz _]. destruct x as [x0 x1 x2]. cbn [vx vy vz] in Hz. subst x2.
    vunfold. cbn [vx vy vz]. lra.
Qed.

Lemma disk_K_support_nz (r px py pz : R) :
  0 <= r -> norm (V px py 0) <> 0 ->
  is_support (disk_K r) (V px py pz) (vscale (r / norm (V px py 0)) (V px py 0)).
Proof.
  intros Hr Hn.
  assert (En : norm (V px py 0) = R_sqrt.sqrt (px * px + py * py)).
  { unfold norm. rops. f_equal. vunfold. cbn [vx vy vz]. ring. }
  rewrite En in *.
  pose proof (sqrt_pos (px * px + py * py)) as Hn0.
  assert (Hsq : R_sqrt.sqrt (px * px + py * py) * R_sqrt.sqrt (px * px + py * py) = px * px + py * py)
    by (apply sqrt_sqrt; nra).
  assert (Hcs : forall a b, a * a + b * b <= r * r -> a * px + b * py <= r * R_sqrt.sqrt (px * px + py * py))
    by (intros a b Hab; apply cs2_radius; auto).
  set (N := R_sqrt.sqrt (px * px + py * py)) in *. clearbody N. clear En.
  assert (Hnp : 0 < N) by lra.
  split.
  - unfold disk_K, vscale. rops. cbn [vx vy vz]. split; [field; auto|].
    replace (r / N * px * (r / N * px) + r / N * py * (r / N * py)) with (r * r * ((px * px + py * py) / (N * N))) by (field; auto).
    rewrite <- Hsq. replace (N * N / (N * N)) with 1 by (field; auto). lra.
  - intros x [Hz Hx]. destruct x as [x0 x1 x2]. cbn [vx vy vz] in *. subst x2.
    specialize (Hcs x0 x1 Hx).
    vunfold. cbn [vx vy vz].
    replace (r / N * px * px + r / N * py * py + r / N * 0 * pz) with (r / N * (px * px + py * py)) by (field; auto).
    rewrite <- Hsq. replace (r / N * (N * N)) with (r * N) by (field; auto). lra.
Qed.

Theorem support_disk_correct (d c : V3R) (r : R) (n : V3R) :
  0 <= r -> dot n n = 1 -> is_support (disk_set c r n) d (support_disk d c r n).
Proof.
  intros Hr Hn. unfold support_disk.
  pose proof (plane_basis_rotation n Hn) as Hrot.
  destruct (plane_basis_from_normal n) as [x y]. cbn [fst snd] in Hrot.
  change (column_stack x y n) with (of_cols x y n).
  apply (is_support_ext (image (P (of_cols x y n) c) (disk_K r))).
  { intros p. symmetry. apply disk_set_image; auto. }
  remember (mulTV (of_cols x y n) d) as ld eqn:Eld. destruct ld as [px py pz]. cbn [vx vy vz]. rops.
  case_eqb (norm (V px py 0)) 0 Hz.
  - assert (Hs : is_support (image (P (of_cols x y n) c) (disk_K r)) d (transform_point (P (of_cols x y n) c) vzero)).
    { apply image_support. cbn [rot]. rewrite <- Eld. apply disk_K_support_zero; auto. }
    replace (transform_point (P (of_cols x y n) c) vzero) with c in Hs; auto.
    clear. unfold of_cols. vsimp. f_equal; ring.
  - assert (Hs : is_support (image (P (of_cols x y n) c) (disk_K r)) d
                   (transform_point (P (of_cols x y n) c) (vscale (r / norm (V px py 0)) (V px py 0)))).
    { apply image_support. cbn [rot]. rewrite <- Eld. apply disk_K_support_nz; auto. }
    unfold transform_point in Hs. cbn [rot trans] in Hs.
    replace (vadd c (mulMV (of_cols x y n) (vscale (r / norm (V px py 0)) (V px py 0))))
      with (vadd (mulMV (of_cols x y n) (vscale (r / norm (V px py 0)) (V px py 0))) c); auto.
    generalize (mulMV (of_cols x y n) (vscale (r / norm (V px py 0)) (V px py 0))). clear. intros v.
    vsimp. f_equal; ring.
Qed.

Theorem first_vertex_ellipsoid_in T radii : 0 < vx radii -> 0 < vy radii -> 0 < vz radii ->
  ellipsoid_set T radii (first_vertex_ellipsoid T radii).
Proof.
  intros Ha Hb Hc. unfold ellipsoid_set, first_vertex_ellipsoid.
  exists (V 0 0 (vz radii)). split.
  - unfold ellipsoid_K. cbn [vx vy vz].
    replace (vz radii / vz radii) with 1 by (field; lra). unfold Rdiv. ring_simplify. lra.
  - clear. vsimp. f_equal; ring.
Qed.

Theorem center_ellipsoid_in T radii : 0 < vx radii -> 0 < vy radii -> 0 < vz radii -> ellipsoid_set T radii (trans T).
Proof.
  intros Ha Hb Hc. unfold ellipsoid_set.
  exists vzero. split.
  - unfold ellipsoid_K, vzero. rops. cbn [vx vy vz]. unfold Rdiv. ring_simplify. lra.
  - clear. vsimp. f_equal; ring.
Qed.

Theorem first_vertex_cone_in T r h : 0 <= r -> 0 < h -> cone_set T r h (first_vertex_cone T h).
Proof.
  intros Hr Hh. unfold cone_set, first_vertex_cone.
  exists (V 0 0 h). split.
  - unfold cone_K. cbn [vx vy vz]. split; [lra|]. pose proof (sqr_nonneg (r * (1 - h / h))). lra.
  - clear. vsimp. f_equal; ring.
Qed.

Theorem center_cone_in T r h : 0 <= r -> 0 < h -> cone_set T r h (center_cone T h).
Proof.
  intros Hr Hh. unfold cone_set, center_cone. rewrite half_R.
  exists (V 0 0 (/ 2 * h)). split.
  - unfold cone_K. cbn [vx vy vz]. split; [lra|]. pose proof (sqr_nonneg (r * (1 - / 2 * h / h))). lra.
  - clear. vsimp. f_equal; ring.
Qed.

Theorem first_vertex_disk_in c r n : 0 <= r -> dot n n = 1 -> disk_set c r n (first_vertex_disk c r n).
Proof.
  intros Hr Hn. unfold disk_set, first_vertex_disk.
  pose proof (plane_basis_rotation n Hn) as Hrot.
  destruct (plane_basis_from_normal n) as [x y]. cbn [fst snd] in *.
  apply is_rotation_cols in Hrot. destruct Hrot as (A & _ & _ & _ & E & _).
  replace (col (of_cols x y n) 0) with x in * by (destruct x, y, n; reflexivity).
  replace (col (of_cols x y n) 2) with n in * by (destruct x, y, n; reflexivity).
  replace (vsub (vadd c (vscale r x)) c) with (vscale r x) by (clear; vsimp; f_equal; ring).
  rewrite dot_scale_l, E. rewrite dot_scale_l, dot_scale_r, A. split; lra.
Qed.

Theorem center_disk_in c r n : 0 <= r -> disk_set c r n c.
Proof.
  intros Hr. unfold disk_set.
  replace (vsub c c) with (@vzero R _) by (clear; vsimp; f_equal; ring).
  split.
  - clear. vsimp. ring.
  - vunfold. cbn [vx vy vz]. nra.
Qed.

Theorem first_vertex_ellipse_in c a0 a1 r0 r1 : 0 < r0 -> 0 < r1 -> ellipse_set c a0 a1 r0 r1 (first_vertex_ellipse c a0 r0).
Proof.
  intros H0 H1. unfold ellipse_set, first_vertex_ellipse.
  exists (V r0 0 0). split.
  - unfold ellipse_K. cbn [vx vy vz]. split; auto.
    replace (r0 / r0) with 1 by (field; lra). unfold Rdiv. ring_simplify. lra.
  - unfold of_cols. clear. vsimp. f_equal; ring.
Qed.

Theorem center_ellipse_in c a0 a1 r0 r1 : 0 < r0 -> 0 < r1 -> ellipse_set c a0 a1 r0 r1 c.
Proof.
  intros H0 H1. unfold ellipse_set.
  exists vzero. split.
  - unfold ellipse_K, vzero. rops. cbn [vx vy vz]. split; auto. unfold Rdiv. ring_simplify. lra.
  - unfold of_cols. clear. vsimp. f_equal; ring.
Qed.
