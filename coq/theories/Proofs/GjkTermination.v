(** * Termination of the uncapped Jolt GJK loop in exact real arithmetic — what is proved and
      what is not.

    Proved here, about the model Model/JoltLoop.v over R:
    - [distance_step_unknown_decreases]: the loop continues (state Unknown) only if the squared
      length of the new closest point is STRICTLY smaller than the previous one (by a relative
      2^-52), and the new value becomes the next "previous" one;
    - [jolt_terminates_if_finitely_many_values_partial]: IF the squared lengths the simplex solver
      can return on continuing iterations all lie in a finite list [vals] (hypothesis [Hvals]),
      THEN [distance_loop] never runs out of fuel once fuel exceeds the number of those values
      below the current one: at most [length vals] continuing iterations, i.e. at most
      2 * (length vals + 1) support evaluations.
    NOT proved: [Hvals] itself.  For polytopes (finite vertex sets) it follows from C18 — the
    closest point is determined by the carrier sub-simplex of at most 4 difference vertices, of
    which there are finitely many — but that composition is not carried out, hence "_partial";
    and the resulting bound (a binomial coefficient) is far above 1000.  Nothing is proved about
    binary64: there a strictly decreasing sequence of floats is finite too, but the bound is
    astronomically large; liveness and the 1000-evaluation bound are monitored (C19). *)
From Coq Require Import Reals Lra Psatz List NArith Bool QArith Qreals Lia.
From D3 Require Import Base.Ops Base.Vec Base.RVec Spec.Convex Model.Simplex Model.JoltLoop Proofs.JoltLoop.
Import ListNotations.
Local Open Scope R_scope.

Lemma EPSILON_pos : 0 < @EPSILON R ROps.
Proof. unfold EPSILON. cbn [cst ROps]. unfold Q2R. cbn. lra. Qed.

(** the Unknown exit is the last arm of [distance_step] *)
Theorem distance_step_unknown_decreases tol maxd p q s s' :
  0 <= prev_v_len_sq s ->
  distance_step tol maxd p q s = SDone Unknown s' ->
  prev_v_len_sq s' = v_len_sq s' /\ v_len_sq s' < prev_v_len_sq s.
Proof.
  intros Hp. unfold distance_step.
  destruct (andb _ _); [discriminate|].
  destruct (get_closest_point_to_origin _ _ _) as [| |v l sx] eqn:EG; [discriminate| |].
  - (* no improvement: previous simplex is kept *)
    cbv zeta.
    destruct (N.eqb _ 15); [discriminate|].
    destruct (update_simplex_ypq _ _ _ _) as [[Y3 P3] Q3].
    destruct (leb _ _); [discriminate|].
    destruct (max_y_length_squared Y3); [|discriminate].
    destruct (leb _ _); [discriminate|].
    destruct (negb _); [discriminate|].
    destruct (leb (sub (prev_v_len_sq s) (v_len_sq s)) _) eqn:E; [discriminate|].
    intros H. inversion H; subst. cbn [prev_v_len_sq v_len_sq]. split; auto.
    cbn [leb sub mul ROps] in E. apply Rleb_false in E. pose proof EPSILON_pos. nra.
  - cbv zeta.
    destruct (N.eqb _ 15); [discriminate|].
    destruct (update_simplex_ypq _ _ _ _) as [[Y3 P3] Q3].
    destruct (leb _ _); [discriminate|].
    destruct (max_y_length_squared Y3); [|discriminate].
    destruct (leb _ _); [discriminate|].
    destruct (negb _); [discriminate|].
    destruct (leb (sub (prev_v_len_sq s) l) _) eqn:E; [discriminate|].
    intros H. inversion H; subst. cbn [prev_v_len_sq v_len_sq]. split; auto.
    cbn [leb sub mul ROps] in E. apply Rleb_false in E. pose proof EPSILON_pos. nra.
Qed.

(** number of candidate values strictly below [x] *)
Definition below (vals : list R) (x : R) : nat :=
  length (filter (fun y => if Rlt_dec y x then true else false) vals).

Lemma below_decreases vals x y : In y vals -> y < x -> (below vals y < below vals x)%nat.
Proof.
  unfold below. induction vals as [|a vals IH]; intros Hin Hlt; [contradiction|].
  simpl. destruct Hin as [->|Hin].
  - destruct (Rlt_dec y y) as [C|_]; [lra|]. destruct (Rlt_dec y x) as [_|C]; [|lra]. simpl.
    assert (length (filter (fun y0 => if Rlt_dec y0 y then true else false) vals)
            <= length (filter (fun y0 => if Rlt_dec y0 x then true else false) vals))%nat.
    { clear IH. induction vals as [|b vals IH2]; simpl; [lia|].
      destruct (Rlt_dec b y), (Rlt_dec b x); simpl; try lia. lra. }
    lia.
  - specialize (IH Hin Hlt).
    destruct (Rlt_dec a y), (Rlt_dec a x); simpl; try lia. lra.
Qed.

Lemma below_le_length vals x : (below vals x <= length vals)%nat.
Proof.
  unfold below. induction vals as [|a vals IH]; simpl; [lia|].
  destruct (Rlt_dec a x); simpl; lia.
Qed.

Section Termination.
  Variables A B : set3.
  Variables sA sB : V3R -> V3R.
  Variable vals : list R.
  Variables tol maxd san : R.
  Hypothesis HsA : forall d, A (sA d).
  Hypothesis HsB : forall d, B (sB d).
  (** the squared lengths the solver can produce on a continuing iteration form a finite set of
      non-negative numbers (true for polytopes by C18; NOT proved here) *)
  Hypothesis Hnonneg : Forall (fun x => 0 <= x) vals.
  Hypothesis Hvals : forall s p q s',
    srows A B s -> A p -> B q ->
    distance_step tol maxd p q s = SDone Unknown s' -> In (v_len_sq s') vals.

  Theorem jolt_terminates_if_finitely_many_values_partial :
    forall fuel s it,
      srows A B s -> 0 <= prev_v_len_sq s ->
      (below vals (prev_v_len_sq s) < fuel)%nat ->
      distance_loop fuel tol maxd san sA sB s it <> DFuel.
  Proof.
    induction fuel as [|f IH]; intros s it Hr Hp Hf; [lia|].
    cbn [distance_loop].
    destruct (distance_step tol maxd (sA (search_direction s)) (sB (vneg (search_direction s))) s) as [| |g s'] eqn:E;
      try discriminate.
    destruct g.
    - unfold finish_distance. destruct (calculate_closest_points _ _ _) as [[a b]|]; [|discriminate].
      destruct (negb _); [discriminate|]. destruct (ltb _ _); discriminate.
    - unfold finish_distance. destruct (calculate_closest_points _ _ _) as [[a b]|]; [|discriminate].
      destruct (negb _); [discriminate|]. destruct (ltb _ _); discriminate.
    - (* Unknown: one more iteration, with strictly fewer candidate values below *)
      pose proof (distance_step_unknown_decreases _ _ _ _ _ _ Hp E) as (E1 & E2).
      pose proof (Hvals _ _ _ _ Hr (HsA _) (HsB _) E) as Hin.
      destruct (distance_step_invariant A B _ _ _ _ _ _ _ Hr (HsA _) (HsB _) E) as (Hr' & _).
      apply IH; auto.
      + rewrite E1. rewrite Forall_forall in Hnonneg. apply Hnonneg; auto.
      + rewrite E1. pose proof (below_decreases vals _ _ Hin E2). lia.
    - discriminate.
  Qed.

End Termination.

(** the driver [run_distance] squares its tolerance before the loop: same statement, with the
    hypothesis on the solver's values stated for that squared tolerance *)
Corollary jolt_run_terminates_partial (A B : set3) (sA sB : V3R -> V3R) (vals : list R) (tolerance maxd san : R) :
  (forall d, A (sA d)) -> (forall d, B (sB d)) ->
  Forall (fun x => 0 <= x) vals ->
  (forall s p q s', srows A B s -> A p -> B q ->
     distance_step (tolerance * tolerance) maxd p q s = SDone Unknown s' -> In (v_len_sq s') vals) ->
  run_distance (S (length vals)) tolerance maxd san sA sB <> DFuel.
Proof.
  intros HA HB Hn Hv. unfold run_distance. cbn [mul ROps].
  apply (jolt_terminates_if_finitely_many_values_partial A B sA sB vals (tolerance * tolerance) maxd san HA HB Hn Hv).
  - apply srows0.
  - unfold dstate0. cbn [prev_v_len_sq]. unfold MAX_FLOAT.
    cbn [mul cst ROps]. apply Rmult_le_pos.
    + unfold Q2R. cbn. lra.
    + clear. generalize 971%nat. induction n; cbn.
      * cbn [one ROps]. lra.
      * cbn [mul cst ROps] in *. apply Rmult_le_pos; auto. unfold Q2R. cbn. lra.
  - pose proof (below_le_length vals (prev_v_len_sq (@dstate0 R ROps))). lia.
Qed.

(** ** a concrete continuing step (non-vacuity of [distance_step_unknown_decreases]): from a state with
    previous squared length 100, the support pair (2,0,0), (0,0,0) yields the new closest point
    (2,0,0), squared length 4 < 100, and the loop continues with the direction flipped *)
Definition s100 : @dstate R := DS [] [] [] 100 1 (V 1 0 0).
Lemma Rltb_t a b : a < b -> Rltb a b = true. Proof. intros; apply Rltb_true; auto. Qed.
Lemma Rltb_f a b : b <= a -> Rltb a b = false. Proof. intros; apply Rltb_false; auto. Qed.
Lemma Rleb_t a b : a <= b -> Rleb a b = true. Proof. intros; apply Rleb_true; auto. Qed.
Lemma Rleb_f a b : b < a -> Rleb a b = false. Proof. intros; apply Rleb_false; auto. Qed.

Example step_unknown :
  distance_step 0 100000 (V 2 0 0) (V 0 0 0) s100
  = SDone Unknown (DS [vsub (V 2 0 0) (V 0 0 0)] [V 2 0 0] [V 0 0 0]
                      (dot (vsub (V 2 0 0) (V 0 0 0)) (vsub (V 2 0 0) (V 0 0 0)))
                      (dot (vsub (V 2 0 0) (V 0 0 0)) (vsub (V 2 0 0) (V 0 0 0)))
                      (vscale (- 1) (vsub (V 2 0 0) (V 0 0 0)))).
Proof.
  unfold distance_step, s100. cbn [Ys Ps Qs prev_v_len_sq v_len_sq search_direction app length].
  assert (E0 : ltb (dot (V 1 0 0) (vsub (V 2 0 0) (V 0 0 0))) zero = false).
  { cbn [ltb ROps]. apply Rltb_f. vunfold. lra. }
  rewrite E0. cbn [andb].
  unfold get_closest_point_to_origin.
  assert (E1 : ltb (dot (vsub (V 2 0 0) (V 0 0 0)) (vsub (V 2 0 0) (V 0 0 0))) 100 = true).
  { cbn [ltb ROps]. apply Rltb_t. vunfold. lra. }
  rewrite E1. cbv zeta. cbn [N.eqb Pos.eqb].
  set (y := vsub (V 2 0 0) (V 0 0 0)) in *.
  assert (Hy : dot y y = 4) by (unfold y; vunfold; ring).
  assert (EU : update_simplex_ypq [y] [V 2 0 0] [V 0 0 0] 1 = ([y], [V 2 0 0], [V 0 0 0])) by reflexivity.
  rewrite EU. cbn [max_y_length_squared fold_left].
  pose proof EPSILON_pos as HE.
  assert (HE1 : @EPSILON R ROps < 1/2) by (unfold EPSILON; cbn [cst ROps]; unfold Q2R; cbn; lra).
  assert (E2 : leb (dot y y) 0 = false) by (cbn [leb ROps]; apply Rleb_f; lra).
  rewrite E2.
  assert (E3 : leb (dot y y) (mul EPSILON (dot y y)) = false) by (cbn [leb mul ROps]; apply Rleb_f; nra).
  rewrite E3.
  assert (E4 : leb (dot y y) 100 = true) by (cbn [leb ROps]; apply Rleb_t; lra).
  rewrite E4. cbn [negb].
  assert (E5 : leb (sub 100 (dot y y)) (mul EPSILON 100) = false) by (cbn [leb sub mul ROps]; apply Rleb_f; nra).
  rewrite E5. cbn [opp one ROps]. reflexivity.
Qed.
