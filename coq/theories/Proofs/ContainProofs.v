From Coq Require Import Reals Lra Psatz Nsatz List Bool.
From D3 Require Import Base.Ops Base.Vec Base.RVec Base.RVec2 Spec.Convex Spec.Shapes Model.Support Model.Contain Proofs.ShapesTac.
Import ListNotations.
Local Open Scope R_scope.

Lemma sumsq_dot (v : V3R) : sumsq v = dot v v.
Proof. reflexivity. Qed.

Theorem point_in_sphere_iff (p c : V3R) (r : R) :
  point_in_sphere p c r = true <-> sphere_set c r p.
Proof.
  unfold point_in_sphere. rops. rewrite Rleb_true, sphere_set_iff, sumsq_dot. tauto.
Qed.

Theorem contained_below_support (S : set3) (p d s : V3R) :
  S p -> is_support S d s -> dot p d <= dot s d.
Proof. intros Hp [_ Hm]. apply Hm; auto. Qed.

(** ** local coordinates *)
Lemma to_local_inverse (T : Pose R) (p : V3R) : to_local T p = inverse_transform_point T p.
Proof. unfold to_local. vsimp. f_equal; ring. Qed.

Lemma axis_dot (T : Pose R) (k : V3R) :
  is_rotation (rot T) ->
  dot (vsub (transform_point T k) (trans T)) (col (rot T) 2) = vz k.
Proof.
  intros H. apply is_rotation_cols in H. destruct H as (A & B & C & D & E & G).
  vsimp. nsatz.
Qed.

Lemma axis_perp (T : Pose R) (k : V3R) (z : R) :
  is_rotation (rot T) ->
  sumsq (vsub (vsub (transform_point T k) (trans T)) (vscale z (col (rot T) 2)))
  = vx k * vx k + vy k * vy k + (vz k - z) * (vz k - z).
Proof.
  intros H. apply is_rotation_cols in H. destruct H as (A & B & C & D & E & G).
  unfold sumsq. vsimp. nsatz.
Qed.

Lemma local_point (T : Pose R) (p : V3R) :
  is_rotation (rot T) -> p = transform_point T (inverse_transform_point T p).
Proof. intros H. symmetry. apply transform_inverse_transform; auto. Qed.

Theorem point_in_cylinder_iff (p : V3R) (T : Pose R) (r l : R) :
  is_rotation (rot T) -> (point_in_cylinder p T r l = true <-> cylinder_set T r l p).
Proof.
  intros H. unfold cylinder_set. rewrite image_rotation_iff by auto.
  pose proof (local_point T p H) as Hp.
  set (k := inverse_transform_point T p) in *. clearbody k. subst p.
  unfold point_in_cylinder. cbv zeta.
  rewrite axis_dot by auto. rewrite axis_perp by auto.
  rewrite half_R. rops.
  rewrite andb_true_iff, !negb_true_iff, !Rltb_false. unfold cylinder_K.
  replace (vz k - vz k) with 0 by ring.
  split; intros [A B]; split; lra.
Qed.
Lemma Rabs_le_iff (a b : R) : Rabs a <= b <-> - b <= a <= b.
Proof. unfold Rabs. destruct (Rcase_abs a); lra. Qed.

Theorem point_in_box_iff (p : V3R) (T : Pose R) (size : V3R) :
  is_rotation (rot T) -> (point_in_box p T size = true <-> box_set T size p).
Proof.
  intros H. unfold box_set. rewrite image_rotation_iff by auto.
  unfold point_in_box. cbv zeta. rewrite to_local_inverse.
  set (k := inverse_transform_point T p). clearbody k.
  rewrite half_R. rops. rewrite !andb_true_iff, !Rleb_true.
  unfold box_K, vscale. cbn [vx vy vz]. rops. tauto.
Qed.

Theorem point_in_ellipsoid_iff (p : V3R) (T : Pose R) (radii : V3R) :
  is_rotation (rot T) -> (point_in_ellipsoid p T radii = true <-> ellipsoid_set T radii p).
Proof.
  intros H. unfold ellipsoid_set. rewrite image_rotation_iff by auto.
  unfold point_in_ellipsoid. cbv zeta. rewrite to_local_inverse.
  set (k := inverse_transform_point T p). clearbody k.
  unfold sumsq, ellipsoid_K. cbn [vx vy vz]. rops. rewrite Rleb_true. tauto.
Qed.

Lemma axis_dot2 (T : Pose R) (k : V3R) (z : R) :
  is_rotation (rot T) ->
  dot (vsub (transform_point T k) (vadd (trans T) (vscale z (col (rot T) 2)))) (col (rot T) 2)
  = vz k - z.
Proof.
  intros H. apply is_rotation_cols in H. destruct H as (A & B & C & D & E & G).
  vsimp. nsatz.
Qed.

Lemma axis_perp2 (T : Pose R) (k : V3R) (z w : R) :
  is_rotation (rot T) ->
  sumsq (vsub (vsub (transform_point T k) (vadd (trans T) (vscale z (col (rot T) 2))))
              (vscale w (col (rot T) 2)))
  = vx k * vx k + vy k * vy k + (vz k - z - w) * (vz k - z - w).
Proof.
  intros H. apply is_rotation_cols in H. destruct H as (A & B & C & D & E & G).
  unfold sumsq. vsimp. nsatz.
Qed.

Theorem point_in_cone_iff (p : V3R) (T : Pose R) (r h : R) :
  is_rotation (rot T) -> 0 < h -> (point_in_cone p T r h = true <-> cone_set T r h p).
Proof.
  intros H Hh. unfold cone_set. rewrite image_rotation_iff by auto.
  pose proof (local_point T p H) as Hp.
  set (k := inverse_transform_point T p) in *. clearbody k. subst p.
  unfold point_in_cone. cbv zeta.
  rewrite axis_dot2 by auto. rewrite axis_perp2 by auto.
  rewrite half_R. rops. unfold cone_K.
  replace (vz k - / 2 * h - (vz k - / 2 * h)) with 0 by ring.
  replace ((1 - (vz k - / 2 * h + / 2 * h) / h) * r) with (r * (1 - vz k / h)) by (field; lra).
  case_ltb (/ 2 * h) (Rabs (vz k - / 2 * h)) Hz.
  - split; [discriminate|]. intros [A _]. exfalso.
    assert (Rabs (vz k - / 2 * h) <= / 2 * h) by (apply Rabs_le_iff; lra). lra.
  - apply Rabs_le_iff in Hz.
    rewrite negb_true_iff, Rltb_false.
    split; [intros A; split|intros [_ A]]; lra.
Qed.

Theorem point_in_disk_iff (p c : V3R) (r : R) (n : V3R) :
  dot n n = 1 ->
  (point_in_disk p c r n = true <->
   exists q t, disk_set c r n q /\ Rabs t <= @EPSILON10 R ROps /\ p = vadd q (vscale t n)).
Proof.
  intros Hn. unfold point_in_disk. cbv zeta. rops.
  rewrite andb_true_iff, !negb_true_iff, !Rltb_false. rewrite sumsq_dot.
  set (e := @EPSILON10 R ROps). clearbody e.
  split.
  - intros [A B].
    set (dz := dot (vsub p c) n) in *.
    exists (vsub p (vscale dz n)), dz. unfold disk_set.
    replace (vsub (vsub p (vscale dz n)) c) with (vsub (vsub p c) (vscale dz n))
      by (clearbody dz; vsimp; f_equal; ring).
    split; [split|split]; auto.
    + rewrite dot_sub_l, dot_scale_l, Hn. unfold dz. ring.
    + clearbody dz. vsimp. f_equal; ring.
  - intros (q & t & [Q1 Q2] & Ht & ->).
    assert (E : dot (vsub (vadd q (vscale t n)) c) n = t).
    { replace (vsub (vadd q (vscale t n)) c) with (vadd (vsub q c) (vscale t n)) by (vsimp; f_equal; ring).
      rewrite dot_add_l, dot_scale_l, Hn, Q1. ring. }
    rewrite E.
    replace (vsub (vsub (vadd q (vscale t n)) c) (vscale t n)) with (vsub q c) by (vsimp; f_equal; ring).
    auto.
Qed.

Theorem point_in_disk_of_disk (p c : V3R) (r : R) (n : V3R) :
  dot n n = 1 -> disk_set c r n p -> point_in_disk p c r n = true.
Proof.
  intros Hn Hp. apply point_in_disk_iff; auto.
  exists p, 0. split; auto. split.
  - rewrite Rabs_R0. pose proof EPSILON10_R_pos. lra.
  - vsimp. f_equal; ring.
Qed.

Lemma clamp01_spec (x : R) :
  (x <= 0 /\ fmin (fmax x 0) 1 = 0) \/ (0 <= x <= 1 /\ fmin (fmax x 0) 1 = x) \/ (1 <= x /\ fmin (fmax x 0) 1 = 1).
Proof.
  unfold fmin, fmax. rops.
  case_ltb x 0 A.
  - case_ltb 1 0 B; [lra|]. left; split; lra.
  - case_ltb 1 x B.
    + right; right; split; lra.
    + right; left; split; lra.
Qed.

Lemma cap_num (T : Pose R) (k : V3R) (z : R) : is_rotation (rot T) ->
  dot (vsub (transform_point T k) (vsub (trans T) (vscale z (col (rot T) 2))))
      (vsub (vadd (trans T) (vscale z (col (rot T) 2))) (vsub (trans T) (vscale z (col (rot T) 2))))
  = 2 * z * (vz k + z).
Proof.
  intros H. apply is_rotation_cols in H. destruct H as (A & B & C & D & E & G).
  vsimp. nsatz.
Qed.
Lemma cap_den (T : Pose R) (z : R) : is_rotation (rot T) ->
  dot (vsub (vadd (trans T) (vscale z (col (rot T) 2))) (vsub (trans T) (vscale z (col (rot T) 2))))
      (vsub (vadd (trans T) (vscale z (col (rot T) 2))) (vsub (trans T) (vscale z (col (rot T) 2))))
  = 4 * z * z.
Proof.
  intros H. apply is_rotation_cols in H. destruct H as (A & B & C & D & E & G).
  vsimp. nsatz.
Qed.
Lemma cap_dist (T : Pose R) (k : V3R) (z t : R) : is_rotation (rot T) ->
  sumsq (vsub (transform_point T k)
              (vadd (vsub (trans T) (vscale z (col (rot T) 2)))
                    (vscale t (vsub (vadd (trans T) (vscale z (col (rot T) 2)))
                                    (vsub (trans T) (vscale z (col (rot T) 2)))))))
  = vx k * vx k + vy k * vy k + (vz k - (2 * t * z - z)) * (vz k - (2 * t * z - z)).
Proof.
  intros H. rewrite <- (axis_perp T k (2 * t * z - z)) by auto. f_equal.
  set (a := col (rot T) 2). clearbody a. set (q := transform_point T k). clearbody q.
  vsimp. f_equal; ring.
Qed.

Lemma proj_closest (u lo hi tau t' : R) :
  lo <= t' <= hi ->
  (u <= lo /\ tau = lo) \/ (lo <= u <= hi /\ tau = u) \/ (hi <= u /\ tau = hi) ->
  (u - tau) * (u - tau) <= (u - t') * (u - t').
Proof.
  intros Ht [[A ->]|[[A ->]|[A ->]]].
  - assert (0 <= (t' - lo) * ((lo - u) + (t' - u))) by (apply Rmult_le_pos; lra). nra.
  - replace (u - u) with 0 by ring. pose proof (sqr_nonneg (u - t')). lra.
  - assert (0 <= (hi - t') * ((u - hi) + (u - t'))) by (apply Rmult_le_pos; lra). nra.
Qed.

Lemma clamp_segment (kz h : R) :
  0 < h ->
  let x := 2 * (/ 2 * h) * (kz + / 2 * h) / (4 * (/ 2 * h) * (/ 2 * h)) in
  let tau := 2 * fmin (fmax x 0) 1 * (/ 2 * h) - / 2 * h in
  (kz <= - (h / 2) /\ tau = - (h / 2)) \/ (- (h / 2) <= kz <= h / 2 /\ tau = kz) \/ (h / 2 <= kz /\ tau = h / 2).
Proof.
  intros Hh x tau.
  assert (Hk : kz = x * h - / 2 * h) by (unfold x; field; lra).
  subst tau. clearbody x. subst kz.
  destruct (clamp01_spec x) as [[Hx ->]|[[Hx ->]|[Hx ->]]].
  - left. split; [|field]. assert (x * h <= 0) by nra. lra.
  - right; left. split; [|field]. assert (0 <= x * h <= h) by nra. lra.
  - right; right. split; [|field]. assert (h <= x * h) by nra. lra.
Qed.

Theorem point_in_capsule_iff (p : V3R) (T : Pose R) (r h : R) :
  is_rotation (rot T) -> 0 < h -> (point_in_capsule p T r h = true <-> capsule_set T r h p).
Proof.
  intros H Hh. unfold capsule_set. rewrite image_rotation_iff by auto.
  pose proof (local_point T p H) as Hp.
  set (k := inverse_transform_point T p) in *. clearbody k. subst p.
  unfold point_in_capsule. cbv zeta.
  rewrite cap_num, cap_den by auto. rewrite cap_dist by auto.
  rewrite half_R. rops. rewrite Rleb_true.
  destruct k as [kx ky kz]. cbn [vx vy vz].
  pose proof (clamp_segment kz h Hh) as Hc. cbv zeta in Hc.
  set (tau := 2 * fmin (fmax (2 * (/ 2 * h) * (kz + / 2 * h) / (4 * (/ 2 * h) * (/ 2 * h))) 0) 1 * (/ 2 * h) - / 2 * h) in *.
  clearbody tau.
  unfold capsule_K, dot, vsub. cbn [vx vy vz]. rops.
  split.
  - intros A. exists tau. split.
    + apply Rabs_le_iff. destruct Hc as [[B ->]|[[B ->]|[B ->]]]; lra.
    + replace (kx - 0) with kx by ring. replace (ky - 0) with ky by ring. lra.
  - intros (t & Ht & A). apply Rabs_le_iff in Ht.
    replace (kx - 0) with kx in A by ring. replace (ky - 0) with ky in A by ring.
    pose proof (proj_closest kz (- (h / 2)) (h / 2) tau t Ht Hc). lra.
Qed.

(** ** convex mesh *)
Theorem point_in_convex_mesh_halfspaces (p : V3R) (T : Pose R) (vs : list V3R) ts fs :
  face_planes vs ts = Some fs ->
  exists b, point_in_convex_mesh p T vs ts = Some b /\
    (b = true <-> forall f, In f fs -> dot (fst f) (vsub (to_local T p) (snd f)) <= 0).
Proof.
  intros Hf. unfold point_in_convex_mesh. cbv zeta. rewrite Hf.
  eexists. split; [reflexivity|].
  rewrite forallb_forall. rops.
  split; intros Hx f Hi; specialize (Hx f Hi).
  - rewrite negb_true_iff in Hx. apply Rltb_false in Hx. auto.
  - rewrite negb_true_iff. apply Rltb_false. auto.
Qed.

(* faces oriented outwards: every vertex is on the inner side of every face plane *)
Definition faces_outward (vs : list V3R) (fs : list (V3R * V3R)) : Prop :=
  forall f v, In f fs -> In v vs -> dot (fst f) (vsub v (snd f)) <= 0.

(** an affine map sends a combination to the combination of the images (weights sum) *)
Lemma comb_transform (T : Pose R) : forall ws vs,
  length ws = length vs ->
  comb ws (map (transform_point T) vs)
  = vadd (mulMV (rot T) (comb ws vs)) (vscale (sum ws) (trans T)).
Proof.
  induction ws as [|w ws IH]; intros [|v vs] Hl; cbn [comb map sum length] in *; try discriminate.
  - vsimp. f_equal; ring.
  - rewrite IH by (injection Hl; auto).
    set (X := comb ws vs). clearbody X. set (s := sum ws). clearbody s.
    vsimp. f_equal; ring.
Qed.

Lemma hull_set_local (T : Pose R) (vs : list V3R) (p : V3R) :
  is_rotation (rot T) -> hull_set T vs p -> conv_hull vs (inverse_transform_point T p).
Proof.
  intros H (ws & Hl & Hw & Hs & ->). rewrite map_length in Hl.
  exists ws. repeat split; auto.
  rewrite comb_transform, Hs by auto.
  replace (vadd (mulMV (rot T) (comb ws vs)) (vscale 1 (trans T))) with (transform_point T (comb ws vs)).
  - apply inverse_transform_transform; auto.
  - set (X := comb ws vs). clearbody X. vsimp. f_equal; ring.
Qed.

Theorem point_in_convex_mesh_complete_partial (p : V3R) (T : Pose R) (vs : list V3R) ts fs :
  is_rotation (rot T) -> face_planes vs ts = Some fs -> faces_outward vs fs ->
  hull_set T vs p -> point_in_convex_mesh p T vs ts = Some true.
Proof.
  intros H Hf Ho Hp.
  destruct (point_in_convex_mesh_halfspaces p T vs ts fs Hf) as (b & Hb & Hiff).
  rewrite Hb. f_equal. apply Hiff. intros f Hi.
  rewrite to_local_inverse, dot_sub_r.
  pose proof (hull_linear_bound vs (fst f) (dot (fst f) (snd f))) as Hlb.
  assert (Hv : forall v, In v vs -> dot (fst f) v <= dot (fst f) (snd f)).
  { intros v Hv. specialize (Ho f v Hi Hv). rewrite dot_sub_r in Ho. lra. }
  specialize (Hlb Hv _ (hull_set_local T vs p H Hp)). lra.
Qed.
