(** * line_to_plane, line_segment_to_plane, plane_to_plane, plane_to_triangle over the reals:
      feasibility (C10) and optimality (C11) of the model of [Model/DistPrim.v]. *)
From Coq Require Import Reals Lra Psatz List Bool.
From D3 Require Import Base.Ops Base.Vec Base.RVec Base.RVec2 Spec.Convex Spec.Prims Model.DistPrim Proofs.DistBase Proofs.DistPoint.
Import ListNotations.
Local Open Scope R_scope.

(** ** shared facts *)
Lemma norm_unit (n : V3R) : dot n n = 1 -> norm n = 1.
Proof. intros H. unfold norm. ops_R. rewrite H. apply sqrt_1. Qed.

(** the signed distance to a plane with unit normal bounds the distance to any plane point *)
Lemma plane_lower_bound (pp pn x y : V3R) :
  dot pn pn = 1 -> plane_set pp pn y -> Rabs (dot (vsub x pp) pn) <= norm (vsub x y).
Proof.
  intros Hu Hy. unfold plane_set in Hy.
  assert (E : dot (vsub x pp) pn = dot (vsub x y) pn).
  { rewrite dot_sub_l in Hy. rewrite !dot_sub_l. lra. }
  rewrite E. pose proof (cauchy_schwarz_abs (vsub x y) pn) as HC.
  rewrite (norm_unit pn Hu), Rmult_1_r in HC. exact HC.
Qed.

Lemma optimal_zero (A B : set3) : optimal A B 0.
Proof. intros a b _ _. apply norm_nonneg. Qed.

Lemma feasible_common (A B : set3) (c : V3R) : A c -> B c -> feasible A B 0 c c.
Proof.
  intros Ha Hb. split; [exact Ha|]. split; [exact Hb|]. split; [lra|].
  symmetry. apply norm_sub_self.
Qed.

(** [point_to_plane] as a pair for a point that belongs to a set [A] *)
Lemma point_to_plane_feasible_in (A : set3) (p pp pn : V3R) d c :
  dot pn pn = 1 -> A p ->
  point_to_plane p pp pn = (d, c) -> feasible A (plane_set pp pn) d p c.
Proof.
  intros Hu Ha H. destruct (point_to_plane_feasible p pp pn d c Hu H) as (_ & Hb & Hd & He).
  split; [exact Ha|]. split; [exact Hb|]. split; assumption.
Qed.

(** ** line_to_plane *)
Lemma line_to_plane_feasible (lp ld pp pn : V3R) eps d c1 c2 :
  dot pn pn = 1 -> 0 < eps ->
  line_to_plane lp ld pp pn eps = (d, c1, c2) ->
  feasible (line_set lp ld) (plane_set pp pn) d c1 c2.
Proof.
  intros Hu He. unfold line_to_plane, line_to_plane_param, hesse_d. ops_R.
  rb_case.
  - (* parallel *)
    destruct (point_to_plane lp pp pn) as [dist cpp] eqn:Hp.
    intros H. apply pair3_eq in H. destruct H as (<- & <- & <-).
    apply point_to_plane_feasible_in; auto.
    exists 0. veq.
  - intros H. apply pair3_eq in H. destruct H as (<- & <- & <-).
    assert (Hl : dot ld pn <> 0) by (intros Hz; rewrite Hz in E; lra).
    apply feasible_common.
    + eexists; reflexivity.
    + unfold plane_set. rewrite dot_sub_l, dot_add_l, dot_scale_l.
      rewrite (dot_comm pn ld), (dot_comm pn lp). field. exact Hl.
Qed.

(** optimal outside the epsilon band of the model's own test quantity [l = ld . pn] *)
Lemma line_to_plane_optimal (lp ld pp pn : V3R) eps d c1 c2 :
  dot pn pn = 1 -> 0 < eps ->
  (dot ld pn = 0 \/ eps <= dot ld pn * dot ld pn) ->
  line_to_plane lp ld pp pn eps = (d, c1, c2) ->
  optimal (line_set lp ld) (plane_set pp pn) d.
Proof.
  intros Hu He Hband. unfold line_to_plane, line_to_plane_param, hesse_d. ops_R.
  rb_case.
  - assert (Hl : dot ld pn = 0) by (destruct Hband; [assumption|lra]).
    unfold point_to_plane. ops_R.
    intros H. apply pair3_eq in H. destruct H as (<- & _ & _).
    intros x y [u ->] Hy.
    eapply Rle_trans; [|apply (plane_lower_bound pp pn _ y Hu Hy)].
    right. f_equal. rewrite (dot_comm pn). rewrite !dot_sub_l, dot_add_l, dot_scale_l, Hl. ring.
  - intros H. apply pair3_eq in H. destruct H as (<- & _ & _). apply optimal_zero.
Qed.

(** ** plane_to_plane *)
Lemma dot_vdivs_l (a b : V3R) (s : R) : s <> 0 -> dot (vdivs a s) b = dot a b / s.
Proof. intros Hs. vsimp. field. exact Hs. Qed.

(** the Pluecker point of the intersection line lies on both planes (no unit normals needed) *)
Lemma pluecker_point_on_plane1 (p1 n1 p2 n2 : V3R) :
  let ld := cross n1 n2 in
  let lm := vsub (vscale (dot p2 n2) n1) (vscale (dot p1 n1) n2) in
  dot (cross ld lm) n1 = dot p1 n1 * dot ld ld.
Proof. vsimp. ring. Qed.
Lemma pluecker_point_on_plane2 (p1 n1 p2 n2 : V3R) :
  let ld := cross n1 n2 in
  let lm := vsub (vscale (dot p2 n2) n1) (vscale (dot p1 n1) n2) in
  dot (cross ld lm) n2 = dot p2 n2 * dot ld ld.
Proof. vsimp. ring. Qed.

Lemma norm_pos_dot_pos (a : V3R) : 0 < norm a -> 0 < dot a a.
Proof. intros H. rewrite <- norm_sq. nra. Qed.

Lemma plane_to_plane_feasible (p1 n1 p2 n2 : V3R) eps d c1 c2 :
  dot n1 n1 = 1 -> dot n2 n2 = 1 -> 0 <= eps ->
  plane_to_plane p1 n1 p2 n2 eps = (d, c1, c2) ->
  feasible (plane_set p1 n1) (plane_set p2 n2) d c1 c2.
Proof.
  intros Hu1 Hu2 He. unfold plane_to_plane, line_from_pluecker_point, hesse_d. ops_R.
  rb_case.
  - assert (Hpos : 0 < dot (cross n1 n2) (cross n1 n2)) by (apply norm_pos_dot_pos; lra).
    rb_case; [|lra].
    intros H. apply pair3_eq in H. destruct H as (<- & <- & <-).
    apply feasible_common; unfold plane_set; rewrite dot_sub_l, dot_vdivs_l by lra.
    + rewrite pluecker_point_on_plane1. field. lra.
    + rewrite pluecker_point_on_plane2. field. lra.
  - destruct (point_to_plane p1 p2 n2) as [dist cpp] eqn:Hp.
    intros H. apply pair3_eq in H. destruct H as (<- & <- & <-).
    apply point_to_plane_feasible_in; auto.
    unfold plane_set. rewrite dot_sub_l. ring.
Qed.

(** parallel unit normals: the second normal is a multiple of the first *)
Lemma cross_zero_parallel (n1 n2 : V3R) :
  dot n1 n1 = 1 -> cross n1 n2 = vzero -> n2 = vscale (dot n1 n2) n1.
Proof.
  intros Hu Hc. apply vsub_eq_zero. apply dot_self_zero.
  rewrite dot_sub_scale_sq, Hu. rewrite (dot_comm n2 n1).
  pose proof (lagrange n1 n2) as L. rewrite Hc, Hu in L.
  replace (dot (@vzero R _) vzero) with 0 in L by (vsimp; ring). lra.
Qed.

(** optimal outside the epsilon band of the model's own test quantity [|n1 x n2|] *)
Lemma plane_to_plane_optimal (p1 n1 p2 n2 : V3R) eps d c1 c2 :
  dot n1 n1 = 1 -> dot n2 n2 = 1 -> 0 <= eps ->
  (cross n1 n2 = vzero \/ eps < norm (cross n1 n2)) ->
  plane_to_plane p1 n1 p2 n2 eps = (d, c1, c2) ->
  optimal (plane_set p1 n1) (plane_set p2 n2) d.
Proof.
  intros Hu1 Hu2 He Hband. unfold plane_to_plane. ops_R.
  rb_case.
  - intros H. apply pair3_eq in H. destruct H as (<- & _ & _). apply optimal_zero.
  - assert (Hc : cross n1 n2 = vzero) by (destruct Hband; [assumption|lra]).
    unfold point_to_plane. ops_R.
    intros H. apply pair3_eq in H. destruct H as (<- & _ & _).
    intros x y Hx Hy. unfold plane_set in Hx.
    eapply Rle_trans; [|apply (plane_lower_bound p2 n2 x y Hu2 Hy)].
    right. f_equal. rewrite (dot_comm n2).
    assert (Z : dot (vsub x p1) n2 = 0).
    { rewrite (cross_zero_parallel n1 n2 Hu1 Hc), dot_scale_r, Hx. ring. }
    rewrite dot_sub_l in Z. rewrite !dot_sub_l. lra.
Qed.

(** ** line_segment_to_plane *)
Lemma vscale_vdivs (a : V3R) (k : R) : k <> 0 -> vscale k (vdivs a k) = a.
Proof. intros Hk. vsimp. f_equal; field; exact Hk. Qed.

(** [convert_segment_to_line]: e = s + len * sd with len >= 0, degenerate segment included *)
Lemma convert_segment_spec (s e : V3R) :
  exists sd len, convert_segment_to_line s e = (sd, len) /\ 0 <= len /\ vsub e s = vscale len sd.
Proof.
  unfold convert_segment_to_line. ops_R. rb_case.
  - eexists; eexists. split; [reflexivity|]. split; [lra|].
    symmetry. apply vscale_vdivs. lra.
  - eexists; eexists. split; [reflexivity|]. split; [apply norm_nonneg|].
    pose proof (norm_nonneg (vsub e s)).
    assert (Hz : norm (vsub e s) = 0) by lra.
    rewrite Hz. apply norm_zero_iff in Hz. rewrite Hz. veq.
Qed.

Lemma seg_param_in (s e sd : V3R) (len t : R) :
  0 <= len -> vsub e s = vscale len sd -> 0 <= t <= len -> segment_set s e (vadd s (vscale t sd)).
Proof.
  intros Hl Hd Ht. destruct (Req_dec len 0) as [Hz|Hz].
  - exists 0. split; [lra|]. assert (t = 0) by lra. subst t. veq.
  - exists (t / len). split.
    + split; [apply Rmult_le_pos; [lra|]; left; apply Rinv_0_lt_compat; lra|].
      apply Rmult_le_reg_r with len; [lra|]. replace (t / len * len) with t by (field; exact Hz). lra.
    + rewrite Hd. clear Hd. vsimp. f_equal; field; exact Hz.
Qed.

Lemma seg_start_in (s e : V3R) : segment_set s e s.
Proof. exists 0. split; [lra|]. veq. Qed.
Lemma seg_end_in (s e : V3R) : segment_set s e e.
Proof. exists 1. split; [lra|]. veq. Qed.

(** no hypothesis on the segment: [s = e] ends in the parallel arm *)
Lemma line_segment_to_plane_feasible (s e pp pn : V3R) eps d c1 c2 :
  dot pn pn = 1 -> 0 < eps ->
  line_segment_to_plane s e pp pn eps = (d, c1, c2) ->
  feasible (segment_set s e) (plane_set pp pn) d c1 c2.
Proof.
  intros Hu He. unfold line_segment_to_plane, line_segment_to_plane_full.
  destruct (convert_segment_spec s e) as (sd & len & Hc & Hlen & Hd). rewrite Hc.
  unfold line_to_plane_param, hesse_d. ops_R.
  destruct (Rltb (dot sd pn * dot sd pn) eps) eqn:E; rb_hyp E.
  - destruct (point_to_plane s pp pn) as [dist cpp] eqn:Hp.
    intros H. apply pair3_eq in H. destruct H as (<- & <- & <-).
    apply point_to_plane_feasible_in; auto. apply seg_start_in.
  - assert (Hl : dot sd pn <> 0) by (intros Hz; rewrite Hz in E; lra).
    set (t := (dot pp pn - dot pn s) / dot pn sd).
    destruct (Rleb 0 t) eqn:E1; rb_hyp E1; cbn [andb].
    + destruct (Rleb t len) eqn:E2; rb_hyp E2.
      * intros H. apply pair3_eq in H. destruct H as (<- & <- & <-).
        apply feasible_common.
        -- apply (seg_param_in s e sd len t); auto.
        -- unfold plane_set, t. rewrite dot_sub_l, dot_add_l, dot_scale_l.
           rewrite (dot_comm pn sd), (dot_comm pn s). field. exact Hl.
      * destruct (Rltb t 0) eqn:E3; rb_hyp E3; [lra|].
        destruct (point_to_plane e pp pn) as [dist cpp] eqn:Hp.
        intros H. apply pair3_eq in H. destruct H as (<- & <- & <-).
        apply point_to_plane_feasible_in; auto. apply seg_end_in.
    + destruct (Rltb t 0) eqn:E3; rb_hyp E3; [|lra].
      destruct (point_to_plane s pp pn) as [dist cpp] eqn:Hp.
      intros H. apply pair3_eq in H. destruct H as (<- & <- & <-).
      apply point_to_plane_feasible_in; auto. apply seg_start_in.
Qed.

Lemma Rabs_le_sq (a b : R) : a * a <= b * b -> Rabs a <= Rabs b.
Proof. intros H. apply Rabs_le_of_sq; [apply Rabs_pos|]. rewrite (Rabs_sq b). exact H. Qed.

(** an affine function vanishing at [t] outside [0,len]: its modulus on [0,len] is least at the nearer end *)
Lemma affine_abs_before (a l t u : R) :
  a = - t * l -> t <= 0 -> 0 <= u -> Rabs a <= Rabs (a + u * l).
Proof.
  intros -> Ht Hu. apply Rabs_le_sq.
  replace ((- t * l + u * l) * (- t * l + u * l)) with (- t * l * (- t * l) + (l * l) * (u * (u - 2 * t))) by ring.
  assert (0 <= (l * l) * (u * (u - 2 * t))).
  { apply Rmult_le_pos; [apply sqr_nonneg|]. apply Rmult_le_pos; lra. }
  lra.
Qed.
Lemma affine_abs_after (a l t u len : R) :
  a = - t * l -> len <= t -> u <= len -> Rabs (a + len * l) <= Rabs (a + u * l).
Proof.
  intros -> Ht Hu. apply Rabs_le_sq.
  replace ((- t * l + u * l) * (- t * l + u * l))
    with ((- t * l + len * l) * (- t * l + len * l) + (l * l) * ((len - u) * (2 * t - len - u))) by ring.
  assert (0 <= (l * l) * ((len - u) * (2 * t - len - u))).
  { apply Rmult_le_pos; [apply sqr_nonneg|]. apply Rmult_le_pos; lra. }
  lra.
Qed.

(** optimal outside the epsilon band of the model's own test quantity [l = sd . pn],
    [sd] the direction returned by [convert_segment_to_line] (unit when [s <> e], zero otherwise) *)
Lemma line_segment_to_plane_optimal (s e pp pn : V3R) eps d c1 c2 :
  dot pn pn = 1 -> 0 < eps ->
  (let l := dot (fst (convert_segment_to_line s e)) pn in l = 0 \/ eps <= l * l) ->
  line_segment_to_plane s e pp pn eps = (d, c1, c2) ->
  optimal (segment_set s e) (plane_set pp pn) d.
Proof.
  intros Hu He Hband. unfold line_segment_to_plane, line_segment_to_plane_full.
  destruct (convert_segment_spec s e) as (sd & len & Hc & Hlen & Hd). rewrite Hc in *.
  cbn [fst] in Hband.
  unfold line_to_plane_param, hesse_d, point_to_plane. ops_R.
  assert (LB : forall dd, (forall v, 0 <= v <= 1 -> dd <= Rabs (dot s pn + v * (len * dot sd pn) - dot pp pn)) ->
               optimal (segment_set s e) (plane_set pp pn) dd).
  { intros dd Hdd x y (v & Hv & ->) Hy.
    eapply Rle_trans; [|apply (plane_lower_bound pp pn _ y Hu Hy)].
    rewrite Hd, dot_sub_l, dot_add_l, !dot_scale_l. apply Hdd. exact Hv. }
  destruct (Rltb (dot sd pn * dot sd pn) eps) eqn:E; rb_hyp E.
  - assert (Hl : dot sd pn = 0) by (destruct Hband; [assumption|lra]).
    intros H. apply pair3_eq in H. destruct H as (<- & _ & _).
    apply LB. intros v Hv. right. f_equal. rewrite (dot_comm pn), dot_sub_l, Hl. ring.
  - assert (Hl : dot sd pn <> 0) by (intros Hz; rewrite Hz in E; lra).
    rewrite (dot_comm pn sd), (dot_comm pn s).
    set (t := (dot pp pn - dot s pn) / dot sd pn).
    assert (Ha : dot s pn - dot pp pn = - t * dot sd pn) by (unfold t; field; exact Hl).
    destruct (Rleb 0 t) eqn:E1; rb_hyp E1; cbn [andb].
    + destruct (Rleb t len) eqn:E2; rb_hyp E2.
      * intros H. apply pair3_eq in H. destruct H as (<- & _ & _). apply optimal_zero.
      * destruct (Rltb t 0) eqn:E3; rb_hyp E3; [lra|].
        intros H. apply pair3_eq in H. destruct H as (<- & _ & _).
        apply LB. intros v Hv.
        assert (Ee : dot pn (vsub e pp) = (dot s pn - dot pp pn) + len * dot sd pn).
        { rewrite (dot_comm pn), dot_sub_l.
          replace (dot e pn) with (dot s pn + dot (vsub e s) pn) by (rewrite dot_sub_l; ring).
          rewrite Hd, dot_scale_l. ring. }
        rewrite Ee.
        replace (dot s pn + v * (len * dot sd pn) - dot pp pn)
          with ((dot s pn - dot pp pn) + (v * len) * dot sd pn) by ring.
        apply (affine_abs_after _ _ t); [exact Ha|lra|]. nra.
    + destruct (Rltb t 0) eqn:E3; rb_hyp E3; [|lra].
      intros H. apply pair3_eq in H. destruct H as (<- & _ & _).
      apply LB. intros v Hv.
      rewrite (dot_comm pn), dot_sub_l.
      replace (dot s pn + v * (len * dot sd pn) - dot pp pn)
        with ((dot s pn - dot pp pn) + (v * len) * dot sd pn) by ring.
      apply (affine_abs_before _ _ t); [exact Ha|lra|]. apply Rmult_le_pos; lra.
Qed.

(** ** plane_to_triangle (via plane_to_points on the three vertices) *)
Lemma eps6_pos : 0 < eps6 (O:=ROps).
Proof. unfold eps6. cbn [cst div ROps]. unfold Q2R. simpl. lra. Qed.

(** a segment whose end points are strictly on opposite sides of the plane, outside the band:
    the model finds the crossing *)
Lemma crossing_param (l len t fs fe : R) :
  0 <= len -> t * l = - fs -> len * l = fe - fs -> fs < 0 < fe -> 0 <= t <= len.
Proof. intros Hl Ht Hlen [H1 H2]. assert (0 < l) by nra. split; nra. Qed.

Lemma line_segment_to_plane_crossing (s e pp pn : V3R) eps d c1 c2 :
  0 < eps -> dot (vsub s pp) pn < 0 < dot (vsub e pp) pn ->
  (let l := dot (fst (convert_segment_to_line s e)) pn in l = 0 \/ eps <= l * l) ->
  line_segment_to_plane s e pp pn eps = (d, c1, c2) -> d = 0.
Proof.
  intros He Hside Hband. unfold line_segment_to_plane, line_segment_to_plane_full.
  destruct (convert_segment_spec s e) as (sd & len & Hc & Hlen & Hd). rewrite Hc in *.
  cbn [fst] in Hband.
  unfold line_to_plane_param, hesse_d, point_to_plane. ops_R.
  assert (Hll : len * dot sd pn = dot (vsub e pp) pn - dot (vsub s pp) pn).
  { rewrite <- dot_scale_l, <- Hd, !dot_sub_l. ring. }
  destruct (Rltb (dot sd pn * dot sd pn) eps) eqn:E; rb_hyp E.
  - assert (Hl : dot sd pn = 0) by (destruct Hband; [assumption|lra]).
    rewrite Hl in Hll. lra.
  - assert (Hl : dot sd pn <> 0) by (intros Hz; rewrite Hz in E; lra).
    rewrite (dot_comm pn sd), (dot_comm pn s).
    set (t := (dot pp pn - dot s pn) / dot sd pn).
    assert (Ha : t * dot sd pn = - dot (vsub s pp) pn) by (unfold t; rewrite dot_sub_l; field; exact Hl).
    destruct (crossing_param _ _ _ _ _ Hlen Ha Hll Hside) as [T0 T1].
    destruct (Rleb 0 t) eqn:E1; rb_hyp E1; [|lra].
    destruct (Rleb t len) eqn:E2; rb_hyp E2; [|lra]. cbn [andb].
    intros H. apply pair3_eq in H. destruct H as (<- & _ & _). reflexivity.
Qed.

(** np.argmin / np.argmax on three values *)
Lemma argmin3_spec (ta tb tc : R) :
  (argmin [ta; tb; tc] < 3)%nat /\
  nth (argmin [ta; tb; tc]) [ta; tb; tc] 0 <= ta /\
  nth (argmin [ta; tb; tc]) [ta; tb; tc] 0 <= tb /\
  nth (argmin [ta; tb; tc]) [ta; tb; tc] 0 <= tc.
Proof. unfold argmin, argbest. ops_R. repeat rb_case; cbn; repeat split; try lia; lra. Qed.
Lemma argmax3_spec (ta tb tc : R) :
  (argmax [ta; tb; tc] < 3)%nat /\
  ta <= nth (argmax [ta; tb; tc]) [ta; tb; tc] 0 /\
  tb <= nth (argmax [ta; tb; tc]) [ta; tb; tc] 0 /\
  tc <= nth (argmax [ta; tb; tc]) [ta; tb; tc] 0.
Proof. unfold argmax, argbest. ops_R. repeat rb_case; cbn; repeat split; try lia; lra. Qed.

Lemma nth3_map {A : Type} (f : A -> R) (a b c da : A) (i : nat) :
  (i < 3)%nat -> nth i [f a; f b; f c] 0 = f (nth i [a; b; c] da).
Proof. intros H. destruct i as [|[|[|i]]]; try reflexivity. lia. Qed.

Lemma tri_vertex_in (a b c : V3R) (i : nat) : (i < 3)%nat -> triangle_set a b c (nth i [a; b; c] vzero).
Proof.
  intros H. destruct i as [|[|[|i]]]; [| | |lia]; cbn [nth].
  - exists 0, 0. repeat split; try lra. veq.
  - exists 1, 0. repeat split; try lra. veq.
  - exists 0, 1. repeat split; try lra. veq.
Qed.

(** the triangle is convex: it contains the segment between any two of its points *)
Lemma tri_segment_in (a b c p q x : V3R) :
  triangle_set a b c p -> triangle_set a b c q -> segment_set p q x -> triangle_set a b c x.
Proof.
  intros (v1 & w1 & Hv1 & Hw1 & Hs1 & ->) (v2 & w2 & Hv2 & Hw2 & Hs2 & ->) (t & Ht & ->).
  exists ((1 - t) * v1 + t * v2), ((1 - t) * w1 + t * w2).
  assert (0 <= (1 - t) * v1) by (apply Rmult_le_pos; lra).
  assert (0 <= t * v2) by (apply Rmult_le_pos; lra).
  assert (0 <= (1 - t) * w1) by (apply Rmult_le_pos; lra).
  assert (0 <= t * w2) by (apply Rmult_le_pos; lra).
  assert (0 <= (1 - t) * (1 - v1 - w1)) by (apply Rmult_le_pos; lra).
  assert (0 <= t * (1 - v2 - w2)) by (apply Rmult_le_pos; lra).
  split; [lra|]. split; [lra|]. split; [nra|]. veq.
Qed.

Lemma tri_signed (a b c pp pn : V3R) (v w : R) :
  dot (vsub (vadd a (vadd (vscale v (vsub b a)) (vscale w (vsub c a)))) pp) pn
  = (1 - v - w) * dot (vsub a pp) pn + v * dot (vsub b pp) pn + w * dot (vsub c pp) pn.
Proof. rewrite !dot_sub_l, !dot_add_l, !dot_scale_l, !dot_sub_l. ring. Qed.

Lemma convex_abs_lower (ta tb tc m v w : R) :
  0 <= v -> 0 <= w -> v + w <= 1 -> m <= Rabs ta -> m <= Rabs tb -> m <= Rabs tc ->
  ((0 <= ta /\ 0 <= tb /\ 0 <= tc) \/ (ta <= 0 /\ tb <= 0 /\ tc <= 0)) ->
  m <= Rabs ((1 - v - w) * ta + v * tb + w * tc).
Proof.
  intros Hv Hw Hs Ha Hb Hc [(Sa & Sb & Sc)|(Sa & Sb & Sc)].
  - rewrite Rabs_pos_eq in Ha, Hb, Hc by assumption.
    eapply Rle_trans; [|apply Rle_abs].
    assert (0 <= (1 - v - w) * (ta - m)) by (apply Rmult_le_pos; lra).
    assert (0 <= v * (tb - m)) by (apply Rmult_le_pos; lra).
    assert (0 <= w * (tc - m)) by (apply Rmult_le_pos; lra).
    lra.
  - rewrite Rabs_left1 in Ha, Hb, Hc by assumption.
    rewrite <- Rabs_Ropp. eapply Rle_trans; [|apply Rle_abs].
    assert (0 <= (1 - v - w) * (- ta - m)) by (apply Rmult_le_pos; lra).
    assert (0 <= v * (- tb - m)) by (apply Rmult_le_pos; lra).
    assert (0 <= w * (- tc - m)) by (apply Rmult_le_pos; lra).
    lra.
Qed.


(** the point the model interpolates on the segment between two points that are strictly on opposite
    sides of the plane (/repo e4c9460): it belongs to the segment and lies on the plane.  [fs], [fe]
    are the signed distances of the end points; no unit normal is needed. *)
Lemma crossing_interp (pp pn s e : V3R) (fs fe : R) :
  fs = dot (vsub s pp) pn -> fe = dot (vsub e pp) pn -> fs < 0 < fe ->
  segment_set s e (vadd s (vscale (fs / (fs - fe)) (vsub e s))) /\
  plane_set pp pn (vadd s (vscale (fs / (fs - fe)) (vsub e s))).
Proof.
  intros Es Ee [Hs He]. split.
  - exists (fs / (fs - fe)). split; [|reflexivity]. split.
    + replace (fs / (fs - fe)) with (- fs * / (fe - fs)) by (field; lra).
      apply Rmult_le_pos; [lra|]. left. apply Rinv_0_lt_compat. lra.
    + apply Rmult_le_reg_r with (fe - fs); [lra|].
      replace (fs / (fs - fe) * (fe - fs)) with (- fs) by (field; lra). lra.
  - unfold plane_set. rewrite dot_sub_l, dot_add_l, dot_scale_l, dot_sub_l.
    replace (dot e pn - dot s pn) with (fe - fs) by (rewrite Es, Ee, !dot_sub_l; ring).
    replace (dot s pn) with (fs + dot pp pn) by (rewrite Es, dot_sub_l; ring).
    field. lra.
Qed.

(** what the model returns, arm by arm *)
Lemma plane_to_triangle_arms (pp pn a b c : V3R) d c1 c2 arm :
  plane_to_triangle pp pn a b c = (d, c1, c2, arm) ->
  let f := fun q => dot (vsub q pp) pn in
  let s := nth (argmin [f a; f b; f c]) [a; b; c] vzero in
  let e := nth (argmax [f a; f b; f c]) [a; b; c] vzero in
  (arm = 0%nat /\ f s < 0 < f e /\ f s = nth (argmin [f a; f b; f c]) [f a; f b; f c] 0 /\
   f e = nth (argmax [f a; f b; f c]) [f a; f b; f c] 0 /\
   triangle_set a b c s /\ triangle_set a b c e /\
   d = 0 /\ c1 = vadd s (vscale (f s / (f s - f e)) (vsub e s)) /\ c2 = c1) \/
  (arm = 1%nat /\
   exists i, (i < 3)%nat /\ d = Rabs (f (nth i [a; b; c] vzero)) /\
             c1 = vsub (nth i [a; b; c] vzero) (vscale (f (nth i [a; b; c] vzero)) pn) /\
             c2 = nth i [a; b; c] vzero /\
             d <= Rabs (f a) /\ d <= Rabs (f b) /\ d <= Rabs (f c) /\
             ((0 <= f a /\ 0 <= f b /\ 0 <= f c) \/ (f a <= 0 /\ f b <= 0 /\ f c <= 0))).
Proof.
  unfold plane_to_triangle, plane_to_points. cbn [map] in *. ops_R. cbv zeta.
  set (ta := dot (vsub a pp) pn) in *. set (tb := dot (vsub b pp) pn) in *. set (tc := dot (vsub c pp) pn) in *.
  destruct (argmin3_spec ta tb tc) as (Imin & Mina & Minb & Minc).
  destruct (argmax3_spec ta tb tc) as (Imax & Maxa & Maxb & Maxc).
  set (imin := argmin [ta; tb; tc]) in *. set (imax := argmax [ta; tb; tc]) in *.
  assert (Emin : nth imin [ta; tb; tc] 0 = dot (vsub (nth imin [a; b; c] vzero) pp) pn)
    by (apply (nth3_map (fun q => dot (vsub q pp) pn)); exact Imin).
  assert (Emax : nth imax [ta; tb; tc] 0 = dot (vsub (nth imax [a; b; c] vzero) pp) pn)
    by (apply (nth3_map (fun q => dot (vsub q pp) pn)); exact Imax).
  set (tmin := nth imin [ta; tb; tc] 0) in *. set (tmax := nth imax [ta; tb; tc] 0) in *.
  destruct (Rltb (tmin * tmax) 0) eqn:E; rb_hyp E.
  - set (s := nth imin [a; b; c] vzero) in *. set (e := nth imax [a; b; c] vzero) in *.
    intros H. apply pair_equal_spec in H. destruct H as [H <-].
    apply pair3_eq in H. destruct H as (<- & <- & <-). left.
    rewrite <- Emin, <- Emax.
    split; [reflexivity|]. split; [split; nra|]. split; [reflexivity|]. split; [reflexivity|].
    split; [apply tri_vertex_in; exact Imin|]. split; [apply tri_vertex_in; exact Imax|].
    split; [reflexivity|]. split; reflexivity.
  - destruct (argmin3_spec (Rabs ta) (Rabs tb) (Rabs tc)) as (Ic & Ca & Cb & Cc).
    set (ic := argmin [Rabs ta; Rabs tb; Rabs tc]) in *.
    assert (Ec : nth ic [Rabs ta; Rabs tb; Rabs tc] 0 = Rabs (nth ic [ta; tb; tc] 0))
      by (apply (nth3_map Rabs); exact Ic).
    assert (Et : nth ic [ta; tb; tc] 0 = dot (vsub (nth ic [a; b; c] vzero) pp) pn)
      by (apply (nth3_map (fun q => dot (vsub q pp) pn)); exact Ic).
    rewrite Ec, Et in Ca, Cb, Cc. rewrite Et.
    intros H. apply pair_equal_spec in H. destruct H as [H <-].
    apply pair3_eq in H. destruct H as (<- & <- & <-). right.
    split; [reflexivity|].
    exists ic. split; [exact Ic|]. split; [reflexivity|]. split; [reflexivity|]. split; [reflexivity|].
    split; [exact Ca|]. split; [exact Cb|]. split; [exact Cc|].
    destruct (Rle_dec 0 tmin) as [P|N]; [left; lra|right].
    assert (tmax <= 0) by nra. lra.
Qed.

(** the opposite-sides arm returns a common point of the plane and the triangle (for ALL inputs:
    no unit normal, no band); otherwise the closest vertex and its projection are returned *)
Lemma plane_to_triangle_cases (pp pn a b c : V3R) d c1 c2 arm :
  plane_to_triangle pp pn a b c = (d, c1, c2, arm) ->
  let f := fun q => dot (vsub q pp) pn in
  (arm = 0%nat /\ d = 0 /\ c1 = c2 /\ plane_set pp pn c1 /\ triangle_set a b c c1) \/
  (arm = 1%nat /\
   exists i, (i < 3)%nat /\ d = Rabs (f (nth i [a; b; c] vzero)) /\
             c1 = vsub (nth i [a; b; c] vzero) (vscale (f (nth i [a; b; c] vzero)) pn) /\
             c2 = nth i [a; b; c] vzero /\
             d <= Rabs (f a) /\ d <= Rabs (f b) /\ d <= Rabs (f c) /\
             ((0 <= f a /\ 0 <= f b /\ 0 <= f c) \/ (f a <= 0 /\ f b <= 0 /\ f c <= 0))).
Proof.
  intros H.
  destruct (plane_to_triangle_arms pp pn a b c d c1 c2 arm H)
    as [(Harm & Hside & _ & _ & Hs & He & Hd & Hc1 & Hc2)|R]; [left|right; exact R].
  destruct (crossing_interp pp pn _ _ _ _ eq_refl eq_refl Hside) as [Hseg Hpl].
  rewrite <- Hc1 in Hseg, Hpl.
  split; [exact Harm|]. split; [exact Hd|]. split; [symmetry; exact Hc2|]. split; [exact Hpl|].
  exact (tri_segment_in a b c _ _ c1 Hs He Hseg).
Qed.

(** *** C10 / C11: feasible and optimal for every triangle (degenerate ones included) and every plane
    with a unit normal.  Since /repo e4c9460 the opposite-sides arm interpolates the crossing point
    instead of calling [_line_segment_to_plane] with a hard-wired 1e-6, so no band hypothesis is left. *)
Lemma plane_to_triangle_feasible (pp pn a b c : V3R) d c1 c2 arm :
  dot pn pn = 1 ->
  plane_to_triangle pp pn a b c = (d, c1, c2, arm) ->
  feasible (plane_set pp pn) (triangle_set a b c) d c1 c2.
Proof.
  intros Hu H.
  destruct (plane_to_triangle_cases pp pn a b c d c1 c2 arm H)
    as [(_ & -> & <- & Hp & Ht)|(_ & i & Hi & -> & -> & -> & _)].
  - apply feasible_common; assumption.
  - set (q := nth i [a; b; c] vzero). set (t := dot (vsub q pp) pn).
    split.
    { unfold plane_set. rewrite dot_sub_l, dot_sub_l, dot_scale_l, Hu. unfold t. rewrite dot_sub_l. ring. }
    split; [apply tri_vertex_in; exact Hi|]. split; [apply Rabs_pos|].
    symmetry. apply norm_abs_of_sq.
    replace (vsub (vsub q (vscale t pn)) q) with (vscale (- t) pn) by veq.
    rewrite dot_scale_l, dot_scale_r, Hu. ring.
Qed.

Lemma plane_to_triangle_optimal (pp pn a b c : V3R) d c1 c2 arm :
  dot pn pn = 1 ->
  plane_to_triangle pp pn a b c = (d, c1, c2, arm) ->
  optimal (plane_set pp pn) (triangle_set a b c) d.
Proof.
  intros Hu H.
  destruct (plane_to_triangle_cases pp pn a b c d c1 c2 arm H)
    as [(_ & -> & _)|(_ & i & Hi & _ & _ & _ & Ha & Hb & Hc & Hsign)].
  - apply optimal_zero.
  - intros y x Hy (v & w & Hv & Hw & Hs & ->).
    rewrite norm_sub_comm.
    eapply Rle_trans; [|apply (plane_lower_bound pp pn _ y Hu Hy)].
    rewrite tri_signed. apply convex_abs_lower; assumption.
Qed.

(** evaluation of comparisons between closed real terms (used for the concrete examples here and
    in DistPlaneHull.v) *)
Ltac rb_dec :=
  match goal with
  | |- context [Rltb ?a ?b] =>
      first [rewrite (proj2 (Rltb_true a b)) by lra | rewrite (proj2 (Rltb_false a b)) by lra]
  | |- context [Rleb ?a ?b] =>
      first [rewrite (proj2 (Rleb_true a b)) by lra | rewrite (proj2 (Rleb_false a b)) by lra]
  end.

(** the opposite-sides arm is reachable: a triangle that really crosses the plane *)
Example plane_to_triangle_nonvacuous :
  let pp : V3R := V 0 0 0 in let pn : V3R := V 0 0 1 in
  let a : V3R := V 0 0 (-1) in let b : V3R := V 0 0 1 in let c : V3R := V 1 0 0 in
  dot pn pn = 1 /\
  dot (vsub a pp) pn < 0 < dot (vsub b pp) pn /\
  exists x, plane_to_triangle pp pn a b c = (0, x, x, 0%nat).
Proof.
  cbv zeta.
  assert (Ta : dot (vsub (V 0 0 (-1)) (V 0 0 0 : V3R)) (V 0 0 1) = -1) by (vunfold; ring).
  assert (Tb : dot (vsub (V 0 0 1) (V 0 0 0 : V3R)) (V 0 0 1) = 1) by (vunfold; ring).
  assert (Tc : dot (vsub (V 1 0 0) (V 0 0 0 : V3R)) (V 0 0 1) = 0) by (vunfold; ring).
  split; [vunfold; ring|]. split; [rewrite Ta, Tb; lra|].
  unfold plane_to_triangle, plane_to_points. cbn [map]. rewrite Ta, Tb, Tc.
  unfold argmin, argmax, argbest. ops_R. repeat rb_dec. cbn [nth]. rb_dec.
  eexists. reflexivity.
Qed.
