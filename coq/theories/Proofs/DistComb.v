(** * Feasibility (C10) of the COMBINATORS of [Model/DistPrimComb.v] over the reals:
      the result of every enumeration of edges / faces is one of the candidates produced by the
      leaf functions, for every enumeration order and every early exit.

    Finiteness: the loops start from `best_dist = MAX_FLOAT` with unbound points, modelled as
    [(max_float, 0, 0)].  Every theorem takes the hypothesis [d < max_float] on the RETURNED distance
    (weaker than "the first candidate is below max_float", see [scan_le_first]); in Python the loop
    would otherwise raise UnboundLocalError. *)
From Coq Require Import Reals Lra Psatz List Bool.
From D3 Require Import Base.Ops Base.Vec Base.RVec Base.RVec2 Spec.Convex Spec.Prims Model.DistPrim Model.DistPrimComb
  Proofs.DistBase Proofs.DistPoint Proofs.DistRect Proofs.DistTriangle Proofs.DistLine Proofs.DistPlane.
Import ListNotations. Local Open Scope R_scope.

(** feasibility up to the early exit `return 0.0, ...` taken when a candidate distance is <= eps *)
Definition feasible_eps (A B : set3) (eps d : R) (p1 p2 : V3R) : Prop :=
  A p1 /\ B p2 /\ 0 <= d /\ (d = norm (vsub p1 p2) \/ (d = 0 /\ norm (vsub p1 p2) <= eps)).

Lemma feasible_feasible_eps (A B : set3) eps d p1 p2 : feasible A B d p1 p2 -> feasible_eps A B eps d p1 p2.
Proof. intros (H1 & H2 & H3 & H4). repeat split; auto. Qed.

Lemma feasible_eps_0 (A B : set3) d p1 p2 : feasible_eps A B 0 d p1 p2 -> feasible A B d p1 p2.
Proof.
  intros (H1 & H2 & H3 & [H4|[H4 H5]]); repeat split; auto.
  pose proof (norm_nonneg (vsub p1 p2)). lra.
Qed.

Notation R3R := (@R3 R).

(** ** 1. the loops [scan] and [scan_ret] *)
(** (a) the result is [best] or a candidate that is strictly below [best] *)
Lemma scan_cases (brk : R3R -> R3R -> R3R -> bool) (cands : list R3R) (best : R3R) :
  scan brk cands best = best \/ (In (scan brk cands best) cands /\ rd (scan brk cands best) < rd best).
Proof.
  revert best. induction cands as [|c cs IH]; intros best; cbn [scan]; [left; reflexivity|].
  ops_R. destruct (Rltb (rd c) (rd best)) eqn:E; rb_hyp E.
  - destruct (brk c best c).
    + right. split; [left; reflexivity|exact E].
    + destruct (IH c) as [-> | [Hin Hlt]].
      * right. split; [left; reflexivity|exact E].
      * right. split; [right; exact Hin|lra].
  - destruct (brk c best best); [left; reflexivity|].
    destruct (IH best) as [-> | [Hin Hlt]]; [left; reflexivity|].
    right. split; [right; exact Hin|exact Hlt].
Qed.

Lemma scan_le_best (brk : R3R -> R3R -> R3R -> bool) cands best : rd (scan brk cands best) <= rd best.
Proof. destruct (scan_cases brk cands best) as [-> | [_ H]]; lra. Qed.

(** the result is at most the first candidate: "first candidate < max_float" implies the
    hypothesis [d < max_float] of the theorems below *)
Lemma scan_le_first (brk : R3R -> R3R -> R3R -> bool) c cs best : rd (scan brk (c :: cs) best) <= rd c.
Proof.
  cbn [scan]. ops_R. destruct (Rltb (rd c) (rd best)) eqn:E; rb_hyp E.
  - destruct (brk c best c); [lra|apply scan_le_best].
  - destruct (brk c best best); [lra|]. pose proof (scan_le_best brk cs best). lra.
Qed.

(** (b) if the first candidate is below [best] the result is a candidate *)
Lemma scan_first_in (brk : R3R -> R3R -> R3R -> bool) c cs best :
  rd c < rd best -> In (scan brk (c :: cs) best) (c :: cs).
Proof.
  intros H. destruct (scan_cases brk (c :: cs) best) as [E | [Hin _]]; [|exact Hin].
  pose proof (scan_le_first brk c cs best). rewrite E in H0. lra.
Qed.

(** invariant form: one [apply] *)
Lemma scan_inv (P : R3R -> Prop) (brk : R3R -> R3R -> R3R -> bool) cands best :
  P best -> (forall c, In c cands -> P c) -> P (scan brk cands best).
Proof. intros Hb Hc. destruct (scan_cases brk cands best) as [-> | [Hin _]]; auto. Qed.

Lemma scan_inv_first (P : R3R -> Prop) (brk : R3R -> R3R -> R3R -> bool) c cs best :
  rd c < rd best -> (forall x, In x (c :: cs) -> P x) -> P (scan brk (c :: cs) best).
Proof. intros H Hc. apply Hc. apply scan_first_in. exact H. Qed.

(** the form used below: [P] guarded by "below max_float"; [init_best] satisfies it vacuously *)
Definition below (P : R3R -> Prop) (r : R3R) : Prop := rd r < max_float -> P r.
Lemma below_init (P : R3R -> Prop) : below P init_best.
Proof. unfold below, init_best, rd. cbn [fst]. lra. Qed.

(** (c) fold_left versions *)
Lemma fold_left_inv {A B : Type} (I : A -> Prop) (f : A -> B -> A) (l : list B) (a : A) :
  I a -> (forall a x, In x l -> I a -> I (f a x)) -> I (fold_left f l a).
Proof.
  revert a. induction l as [|x l IH]; intros a Ha Hf; cbn [fold_left]; [exact Ha|].
  apply IH; [apply Hf; [left; reflexivity|exact Ha]|].
  intros a' x' Hin. apply Hf. right. exact Hin.
Qed.

Lemma fold_scan_inv {S : Type} (P : R3R -> Prop) (brk : R3R -> R3R -> R3R -> bool)
      (f : S -> R3R) (ll : list (list S)) best :
  P best -> (forall l x, In l ll -> In x l -> P (f x)) ->
  P (fold_left (fun b segs => scan brk (map f segs) b) ll best).
Proof.
  intros Hb Hc. apply fold_left_inv; [exact Hb|].
  intros a l Hl Ha. apply scan_inv; [exact Ha|].
  intros c Hin. apply in_map_iff in Hin. destruct Hin as (x & <- & Hx). eapply Hc; eauto.
Qed.

(** [scan_ret]: no early return => [best] or a candidate; early return => (0, points of a candidate
    that is <= eps and below [best]) *)
Lemma scan_ret_cases (eps : R) (cands : list R3R) (best r : R3R) (fl : bool) :
  scan_ret eps cands best = (r, fl) ->
  (fl = false /\ (r = best \/ (In r cands /\ rd r < rd best))) \/
  (fl = true /\ exists c, In c cands /\ rd c <= eps /\ rd c < rd best /\ r = (0, rp1 c, rp2 c)).
Proof.
  revert best. induction cands as [|c cs IH]; intros best; cbn [scan_ret].
  - intros H. apply pair_equal_spec in H. destruct H as [<- <-]. left. auto.
  - ops_R. destruct (Rltb (rd c) (rd best)) eqn:E; rb_hyp E.
    + destruct (Rleb (rd c) eps) eqn:E2; rb_hyp E2.
      * intros H. apply pair_equal_spec in H. destruct H as [<- <-]. right. split; [reflexivity|].
        exists c. repeat split; auto. left; reflexivity.
      * intros H. apply IH in H. destruct H as [[-> [-> | [Hin Hlt]]] | [-> (x & Hin & Hle & Hlt & ->)]].
        -- left. split; [reflexivity|]. right. split; [left; reflexivity|exact E].
        -- left. split; [reflexivity|]. right. split; [right; exact Hin|lra].
        -- right. split; [reflexivity|]. exists x. repeat split; auto; [right; exact Hin|lra].
    + intros H. apply IH in H. destruct H as [[-> [-> | [Hin Hlt]]] | [-> (x & Hin & Hle & Hlt & ->)]].
      * left. auto.
      * left. split; [reflexivity|]. right. split; [right; exact Hin|exact Hlt].
      * right. split; [reflexivity|]. exists x. repeat split; auto. right; exact Hin.
Qed.

(** invariant form for [scan_ret]: [P] for the normal exit, [Pz] derived from [P] at the early exit *)
Lemma scan_ret_inv (P : R3R -> Prop) (eps : R) cands best r fl :
  P best -> (forall c, In c cands -> P c) ->
  (forall c, P c -> rd c <= eps -> P (0, rp1 c, rp2 c)) ->
  scan_ret eps cands best = (r, fl) -> P r.
Proof.
  intros Hb Hc Hz H. apply scan_ret_cases in H.
  destruct H as [[_ [-> | [Hin _]]] | [_ (x & Hin & Hle & _ & ->)]]; auto.
Qed.

(** ** max_float *)
Lemma fpow_ge1 (a : R) n : 1 <= a -> 1 <= fpow (O:=ROps) a n.
Proof. intros Ha. induction n; cbn [fpow one mul ROps]; [lra|nra]. Qed.
Lemma max_float_gt_1 : 1 < max_float (O:=ROps).
Proof.
  unfold max_float. 
  assert (Ha : 1 <= p2_62 (O:=ROps)) by (unfold p2_62; cbn [cst ROps]; unfold Q2R; simpl; lra).
  pose proof (fpow_ge1 _ 16 Ha) as H. set (p := fpow p2_62 16) in *. clearbody p.
  cbn [cst mul ROps]. unfold Q2R. cbn [QArith_base.Qnum QArith_base.Qden].
  set (b := IZR 2147483648 * / IZR (Z.pos 1)). assert (Hb : 1 <= b) by (unfold b; lra).
  set (c := IZR 9007199254740991 * / IZR (Z.pos 4503599627370496)). assert (Hc : 1 < c) by (unfold c; lra).
  clearbody b c. assert (1 <= p * b) by nra. set (q := p * b) in *. clearbody q. nra.
Qed.

(** ** utils.plane_basis_from_normal: for a unit normal [n] the result is [(u, n x u)] with [u] a unit
      vector orthogonal to [n]; hence [(u, v, n)] is an orthonormal basis *)
Lemma plane_basis_spec (n u v : V3R) :
  dot n n = 1 -> plane_basis_from_normal n = (u, v) ->
  dot u u = 1 /\ dot u n = 0 /\ v = cross n u.
Proof.
  intros Hn. unfold plane_basis_from_normal. ops_R. destruct n as [n0 n1 n2]. cbn [vx vy vz].
  unfold dot in Hn. cbn [vx vy vz] in Hn. ops_R.
  pose proof (Rabs_pos n1). pose proof (Rabs_pos n0). pose proof (Rabs_sq n1). pose proof (Rabs_sq n0).
  rb_case; intros HH; apply pair_equal_spec in HH; destruct HH as [<- <-].
  - assert (Hl : 0 < n0 * n0 + n2 * n2) by nra.
    pose proof (sqrt_sqrt (n0 * n0 + n2 * n2) (Rlt_le _ _ Hl)) as Hs.
    pose proof (sqrt_lt_R0 _ Hl) as Hp.
    set (len := R_sqrt.sqrt (n0 * n0 + n2 * n2)) in *. clearbody len.
    split; [|split].
    + unfold dot. cbn [vx vy vz]. ops_R.
      replace (- n2 / len * (- n2 / len) + 0 * 0 + n0 / len * (n0 / len)) with ((n0 * n0 + n2 * n2) / (len * len))
        by (field; lra).
      rewrite Hs. field. lra.
    + unfold dot. cbn [vx vy vz]. ops_R. field. lra.
    + unfold cross. cbn [vx vy vz]. ops_R. f_equal; ring.
  - assert (Hl : 0 < n1 * n1 + n2 * n2) by nra.
    pose proof (sqrt_sqrt (n1 * n1 + n2 * n2) (Rlt_le _ _ Hl)) as Hs.
    pose proof (sqrt_lt_R0 _ Hl) as Hp.
    set (len := R_sqrt.sqrt (n1 * n1 + n2 * n2)) in *. clearbody len.
    split; [|split].
    + unfold dot. cbn [vx vy vz]. ops_R.
      replace (0 * 0 + n2 / len * (n2 / len) + - n1 / len * (- n1 / len)) with ((n1 * n1 + n2 * n2) / (len * len))
        by (field; lra).
      rewrite Hs. field. lra.
    + unfold dot. cbn [vx vy vz]. ops_R. field. lra.
    + unfold cross. cbn [vx vy vz]. ops_R. f_equal; ring.
Qed.

(** expansion of [z] in the (not necessarily orthonormal) basis (u, n, n x u): a polynomial identity *)
Lemma basis_expand_gen (z u n : V3R) :
  vscale (dot u u * dot n n - dot u n * dot u n) z =
  vadd (vscale (dot z u * dot n n - dot z n * dot u n) u)
       (vadd (vscale (dot z n * dot u u - dot z u * dot u n) n)
             (vscale (dot z (cross n u)) (cross n u))).
Proof. veq. Qed.

Lemma basis_zero (z u n : V3R) :
  dot u u = 1 -> dot n n = 1 -> dot u n = 0 ->
  dot z u = 0 -> dot z n = 0 -> dot z (cross n u) = 0 -> z = vzero.
Proof.
  intros A B C D E G. pose proof (basis_expand_gen z u n) as H.
  rewrite A, B, C, D, E, G in H.
  replace z with (vscale (1 * 1 - 0 * 0) z) by veq. rewrite H. veq.
Qed.

Lemma dot_cross_cross (a b c d : V3R) :
  dot (cross a b) (cross c d) = dot a c * dot b d - dot a d * dot b c.
Proof. vsimp; ring. Qed.
Lemma cross_cross_l (n u : V3R) : cross u (cross n u) = vsub (vscale (dot u u) n) (vscale (dot u n) u).
Proof. veq. Qed.

(** (u, v, n) is an orthonormal basis *)
Lemma plane_basis_orthonormal (n u v : V3R) :
  dot n n = 1 -> plane_basis_from_normal n = (u, v) ->
  dot u u = 1 /\ dot v v = 1 /\ dot u v = 0 /\ dot u n = 0 /\ dot v n = 0 /\ cross u v = n.
Proof.
  intros Hn Hb. destruct (plane_basis_spec n u v Hn Hb) as (Huu & Hun & ->).
  split; [exact Huu|]. split; [rewrite dot_cross_cross, Hn, Huu, (dot_comm n u), Hun; ring|].
  split; [vsimp; ring|]. split; [exact Hun|]. split; [vsimp; ring|].
  rewrite cross_cross_l, Huu, Hun. veq.
Qed.

(** the 2x2 determinant of the pierce test is the triple product (e0 x e1) . ld *)
Lemma pierce_det (ld e0 e1 u v : V3R) :
  dot ld ld = 1 -> plane_basis_from_normal ld = (u, v) ->
  dot e0 u * dot e1 v - dot e1 u * dot e0 v = dot (cross e0 e1) ld.
Proof.
  intros Hn Hb. destruct (plane_basis_spec ld u v Hn Hb) as (Huu & Hun & ->).
  replace ld with (cross u (cross ld u)) at 3.
  - rewrite dot_cross_cross. ring.
  - rewrite cross_cross_l, Huu, Hun. veq.
Qed.

(** the intersection point of the line with the plane of (a, e0, e1), computed in the basis (u, v, ld) *)
Lemma pierce_point (lp ld a e0 e1 u v : V3R) :
  dot ld ld = 1 -> plane_basis_from_normal ld = (u, v) ->
  let diff := vsub lp a in
  let det := dot e0 u * dot e1 v - dot e1 u * dot e0 v in
  det <> 0 ->
  let b0 := (dot e1 v * dot u diff - dot e1 u * dot v diff) / det in
  let b1 := (dot e0 u * dot v diff - dot e0 v * dot u diff) / det in
  let t := (b0 * dot e0 ld + b1 * dot e1 ld) - dot ld diff in
  vadd lp (vscale t ld) = vadd a (vadd (vscale b0 e0) (vscale b1 e1)).
Proof.
  intros Hn Hb diff det Hdet b0 b1 t.
  destruct (plane_basis_spec ld u v Hn Hb) as (Huu & Hun & Hv).
  apply vsub_eq_zero.
  replace (vsub (vadd lp (vscale t ld)) (vadd a (vadd (vscale b0 e0) (vscale b1 e1))))
    with (vsub (vadd diff (vscale t ld)) (vadd (vscale b0 e0) (vscale b1 e1))) by (unfold diff; veq).
  assert (Hvn : dot v ld = 0) by (rewrite Hv; vsimp; ring).
  assert (Huv : dot v u = 0) by (rewrite Hv; vsimp; ring).
  apply (basis_zero _ u ld Huu Hn Hun); rewrite <- ?Hv;
    rewrite dot_sub_l, !dot_add_l, !dot_scale_l.
  - rewrite (dot_comm ld u), Hun. rewrite (dot_comm diff u). clearbody t. unfold b0, b1, det in *. clear b0 b1.
    set (x1 := dot e1 v) in *. set (x2 := dot u diff). set (x3 := dot e1 u) in *. set (x4 := dot v diff).
    set (x5 := dot e0 u) in *. set (x6 := dot e0 v) in *. clearbody x1 x2 x3 x4 x5 x6. field. exact Hdet.
  - rewrite Hn. unfold t. rewrite (dot_comm ld diff). ring.
  - rewrite (dot_comm ld v), Hvn. rewrite (dot_comm diff v). clearbody t. unfold b0, b1, det in *. clear b0 b1.
    set (x1 := dot e1 v) in *. set (x2 := dot u diff). set (x3 := dot e1 u) in *. set (x4 := dot v diff).
    set (x5 := dot e0 u) in *. set (x6 := dot e0 v) in *. clearbody x1 x2 x3 x4 x5 x6. field. exact Hdet.
Qed.

(** ** 2. line_to_triangle *)
(** the state of the edge loops of _line_to_triangle / _line_to_rectangle: (dist, cp_line, cp_other, t);
    guarded by "below max_float" as [below] *)
Definition lt_ok (B : set3) (lp ld : V3R) (r : R * V3R * V3R * R) : Prop :=
  let '(d, c1, c2, t) := r in
  d < max_float -> feasible (line_set lp ld) B d c1 c2 /\ c1 = vadd lp (vscale t ld).

Lemma lt_ok_init (B : set3) lp ld : lt_ok B lp ld (max_float, vzero, vzero, 0).
Proof. unfold lt_ok. lra. Qed.

(** the line parameter returned by _line_to_line_segment belongs to the returned line point
    (arm 0, which swaps the points, needs [dot ld ld < eps]) *)
Lemma line_to_line_segment_full_param (lp ld s0 e0 : V3R) (eps : R) d c1 c2 t s arm :
  eps <= dot ld ld ->
  line_to_line_segment_full lp ld s0 e0 eps = (d, c1, c2, t, s, arm) -> c1 = vadd lp (vscale t ld).
Proof.
  intros Hne. unfold line_to_line_segment_full, neqb. ops_R.
  repeat (rb_case; cbn [andb negb]; cbv beta iota);
    try (exfalso; lra);
    intros H; apply pair6_eq in H; destruct H as (_ & <- & _ & <- & _); reflexivity.
Qed.

(** one iteration `if dist < best_dist: best := candidate` against an edge inside [B] *)
Lemma edge_step_ok (B : set3) (lp ld : V3R) (eps : R) (se : V3R * V3R) (best : R * V3R * V3R * R) :
  dot ld ld = 1 -> eps <= 1 ->
  (forall x, segment_set (fst se) (snd se) x -> B x) ->
  lt_ok B lp ld best ->
  lt_ok B lp ld
    (let '(bd, _, _, _) := best in
     let '(d, cpl, cps, t, _, _) := line_to_line_segment_full lp ld (fst se) (snd se) eps in
     if ltb (Ops:=ROps) d bd then (d, cpl, cps, t) else best).
Proof.
  intros Hu He Hin Hb. destruct best as [[[bd b1] b2] bt].
  destruct (line_to_line_segment_full lp ld (fst se) (snd se) eps) as [[[[[d cpl] cps] t] s] arm] eqn:E.
  ops_R. rb_case; [|exact Hb].
  unfold lt_ok. intros _. split.
  - apply line_to_line_segment_full_feasible in E; [|right; lra].
    destruct E as (H1 & H2 & H3 & H4). repeat split; auto.
  - eapply line_to_line_segment_full_param; [|exact E]. lra.
Qed.

Lemma tri_edge_in (a b c : V3R) (se : V3R * V3R) (x : V3R) :
  In se (tri_edges a b c) -> segment_set (fst se) (snd se) x -> triangle_set a b c x.
Proof.
  pose proof (tri_vertex_in a b c 0 ltac:(auto)) as Ha.
  pose proof (tri_vertex_in a b c 1 ltac:(auto)) as Hb.
  pose proof (tri_vertex_in a b c 2 ltac:(auto)) as Hc. cbn [nth] in *.
  intros [<- | [<- | [<- | []]]]; cbn [fst snd]; apply tri_segment_in; assumption.
Qed.

(** the edge arm of _line_to_triangle *)
Lemma line_to_triangle_edges_ok (lp ld a b c : V3R) (eps : R) :
  dot ld ld = 1 -> eps <= 1 ->
  lt_ok (triangle_set a b c) lp ld
    (fold_left (fun (best : R * V3R * V3R * R) (se : V3R * V3R) =>
        let '(bd, _, _, _) := best in
        let '(d, cpl, cps, t, _, _) := line_to_line_segment_full lp ld (fst se) (snd se) eps in
        if ltb (Ops:=ROps) d bd then (d, cpl, cps, t) else best)
      (tri_edges a b c) (max_float, vzero, vzero, 0)).
Proof.
  intros Hu He. apply fold_left_inv; [apply lt_ok_init|].
  intros best se Hin Hb. apply edge_step_ok; auto.
  intros x Hx. eapply tri_edge_in; eauto.
Qed.

Lemma norm_vector_dot_nz (w ld : V3R) (eps : R) :
  0 <= eps -> eps < Rabs (dot (norm_vector w) ld) -> dot w ld <> 0.
Proof.
  intros He H E. unfold norm_vector in H. ops_R. revert H. rb_case; intros H.
  - rewrite E, Rabs_R0 in H. lra.
  - rewrite dot_vdivs_l in H by exact E0. rewrite E in H. unfold Rdiv in H.
    rewrite Rmult_0_l, Rabs_R0 in H. lra.
Qed.

Lemma pair5_eq {A B C D E : Type} (a a' : A) (b b' : B) (c c' : C) (d d' : D) (e e' : E) :
  (a, b, c, d, e) = (a', b', c', d', e') -> a = a' /\ b = b' /\ c = c' /\ d = d' /\ e = e'.
Proof. intros H. inversion H. repeat split. Qed.

(** _line_to_triangle: both arms; the returned parameter belongs to the returned line point.
    Needs no non-degeneracy of the triangle: a degenerate triangle never passes the pierce test *)
Lemma line_to_triangle_full_ok (lp ld a b c : V3R) (eps : R) d c1 c2 t arm :
  dot ld ld = 1 -> 0 <= eps <= 1 ->
  line_to_triangle_full lp ld a b c eps = (d, c1, c2, t, arm) ->
  d < max_float ->
  feasible (line_set lp ld) (triangle_set a b c) d c1 c2 /\ c1 = vadd lp (vscale t ld).
Proof.
  intros Hu [He0 He1].
  pose proof (line_to_triangle_edges_ok lp ld a b c eps Hu He1) as Hedges.
  unfold line_to_triangle_full.
  set (fr := fold_left _ (tri_edges a b c) _) in *.
  assert (Her : (let '(d0, cpl, cpt, t0) := fr in (d0, cpl, cpt, t0, 1%nat)) = (d, c1, c2, t, arm) ->
                d < max_float -> feasible (line_set lp ld) (triangle_set a b c) d c1 c2 /\ c1 = vadd lp (vscale t ld)).
  { destruct fr as [[[d0 cpl] cpt] t0]. intros H. apply pair5_eq in H. destruct H as (<- & <- & <- & <- & _).
    exact Hedges. }
  clearbody fr. clear Hedges. cbv zeta. ops_R.
  rb_case; [|exact Her].
  destruct (plane_basis_from_normal ld) as [u v] eqn:Hb.
  pose proof (pierce_det ld (vsub b a) (vsub c a) u v Hu Hb) as Hdet.
  assert (Hnz : dot (vsub b a) u * dot (vsub c a) v - dot (vsub c a) u * dot (vsub b a) v <> 0).
  { rewrite Hdet. eapply norm_vector_dot_nz; [exact He0|exact E]. }
  pose proof (pierce_point lp ld a (vsub b a) (vsub c a) u v Hu Hb Hnz) as Hpt. cbv zeta in Hpt.
  unfold neqb. ops_R. rewrite (proj2 (Reqb_false _ _) Hnz). cbn [negb].
  set (b0 := (dot (vsub c a) v * dot u (vsub lp a) - dot (vsub c a) u * dot v (vsub lp a)) / _) in *.
  set (b1 := (dot (vsub b a) u * dot v (vsub lp a) - dot (vsub b a) v * dot u (vsub lp a)) / _) in *.
  destruct (Rleb 0 (1 - b0 - b1) && Rleb 0 b0 && Rleb 0 b1) eqn:Et; [|exact Her].
  apply andb_true_iff in Et. destruct Et as [Et E3]. apply andb_true_iff in Et. destruct Et as [E1 E2].
  rb_hyp E1. rb_hyp E2. rb_hyp E3.
  intros H _. apply pair5_eq in H. destruct H as (<- & <- & <- & <- & _).
  split; [|reflexivity].
  rewrite Hpt. apply feasible_common.
  - rewrite <- Hpt. apply line_mem.
  - exists b0, b1. repeat split; auto; lra.
Qed.

Lemma line_to_triangle_feasible (lp ld a b c : V3R) (eps : R) d c1 c2 :
  dot ld ld = 1 -> 0 <= eps <= 1 ->
  line_to_triangle lp ld a b c eps = (d, c1, c2) ->
  d < max_float ->
  feasible (line_set lp ld) (triangle_set a b c) d c1 c2.
Proof.
  intros Hu He. unfold line_to_triangle.
  destruct (line_to_triangle_full lp ld a b c eps) as [[[[d' c1'] c2'] t] arm] eqn:E.
  intros H. apply pair3_eq in H. destruct H as (<- & <- & <-). intros Hf.
  eapply line_to_triangle_full_ok; eauto.
Qed.

(** ** 3. line_segment_to_triangle *)
(** convert_segment_to_line on a non-degenerate segment: unit direction, positive length *)
Lemma convert_segment_unit (s e : V3R) :
  s <> e ->
  exists sd len, convert_segment_to_line s e = (sd, len) /\ 0 < len /\ dot sd sd = 1 /\
                 vsub e s = vscale len sd.
Proof.
  intros Hne. unfold convert_segment_to_line. ops_R.
  assert (Hp : 0 < norm (vsub e s)).
  { pose proof (norm_nonneg (vsub e s)) as H0. destruct (Req_dec (norm (vsub e s)) 0) as [Z|Z]; [|lra].
    exfalso. apply Hne. symmetry. apply vsub_eq_zero. apply norm_zero_iff. exact Z. }
  rb_case; [|lra].
  eexists; eexists. split; [reflexivity|]. split; [exact Hp|]. split.
  - rewrite dot_vdivs_l by lra. rewrite dot_comm, dot_vdivs_l by lra.
    rewrite <- norm_sq. field. lra.
  - symmetry. apply vscale_vdivs. lra.
Qed.

Lemma feasible_point_in (A B : set3) (p c : V3R) d :
  A p -> feasible (point_set p) B d p c -> feasible A B d p c.
Proof. intros Ha (_ & H2 & H3 & H4). repeat split; auto. Qed.

Lemma line_segment_to_triangle_feasible (s e a b c : V3R) (eps : R) d c1 c2 :
  s <> e -> 0 <= eps <= 1 -> cross (vsub b a) (vsub c a) <> vzero ->
  line_segment_to_triangle s e a b c eps = (d, c1, c2) ->
  d < max_float ->
  feasible (segment_set s e) (triangle_set a b c) d c1 c2.
Proof.
  intros Hne He Hnd. unfold line_segment_to_triangle, line_segment_to_triangle_full.
  destruct (convert_segment_unit s e Hne) as (sd & len & -> & Hlen & Hsd & Hd).
  destruct (line_to_triangle_full s sd a b c eps) as [[[[d' cps] cpt] t] arm] eqn:E.
  ops_R. rb_case; [|rb_case].
  - destruct (point_to_triangle s a b c) as [d'' cpt'] eqn:Ep. cbn [fst].
    intros H _. apply pair3_eq in H. destruct H as (<- & <- & <-).
    apply feasible_point_in; [apply seg_start_in|]. apply point_to_triangle_feasible; assumption.
  - destruct (point_to_triangle e a b c) as [d'' cpt'] eqn:Ep. cbn [fst].
    intros H _. apply pair3_eq in H. destruct H as (<- & <- & <-).
    apply feasible_point_in; [apply seg_end_in|]. apply point_to_triangle_feasible; assumption.
  - cbn [fst]. intros H Hf. apply pair3_eq in H. destruct H as (<- & <- & <-).
    destruct (line_to_triangle_full_ok _ _ _ _ _ _ _ _ _ _ _ Hsd He E Hf) as [(H1 & H2 & H3 & H4) Hc].
    repeat split; auto. rewrite Hc. apply (seg_param_in s e sd len t); [lra|exact Hd|lra].
Qed.

(** ** 4. line_to_rectangle, line_segment_to_rectangle *)
(** [Model/DistPrimComb.v] sees the [half] of [Model/Support.v] (same literal as [DistPrim.half]) *)
Lemma half_eq : Support.half (O:=ROps) = half (O:=ROps).
Proof. reflexivity. Qed.
Lemma rect_mem (c a0 a1 : V3R) (l0 l1 k0 k1 : R) :
  - (l0 / 2) <= k0 <= l0 / 2 -> - (l1 / 2) <= k1 <= l1 / 2 ->
  rectangle_set c a0 a1 l0 l1 (vadd c (vadd (vscale k0 a0) (vscale k1 a1))).
Proof. intros H0 H1. exists k0, k1. split; [apply Rabs_le; lra|]. split; [apply Rabs_le; lra|reflexivity]. Qed.

(** the four edges produced by convert_rectangle_to_segment lie in the rectangle *)
Lemma rect_edge_in (c a0 a1 : V3R) (l0 l1 : R) (l : list (V3R * V3R)) (se : V3R * V3R) (x : V3R) :
  0 <= l0 -> 0 <= l1 ->
  In l (rectangle_edges c (vscale (half * l0) a0) (vscale (half * l1) a1)) -> In se l ->
  segment_set (fst se) (snd se) x -> rectangle_set c a0 a1 l0 l1 x.
Proof.
  intros H0 H1. unfold rectangle_edges, rectangle_segment. cbn [map]. rewrite half_R. ops_R.
  intros [<- | [<- | []]] [<- | [<- | []]] (t & Ht & ->); cbn [fst snd].
  - replace (vadd _ _) with (vadd c (vadd (vscale (- (/ 2 * l0)) a0) (vscale (/ 2 * l1 * (2 * t - 1)) a1))) by veq.
    apply rect_mem; nra.
  - replace (vadd _ _) with (vadd c (vadd (vscale (/ 2 * l0) a0) (vscale (/ 2 * l1 * (2 * t - 1)) a1))) by veq.
    apply rect_mem; nra.
  - replace (vadd _ _) with (vadd c (vadd (vscale (/ 2 * l0 * (2 * t - 1)) a0) (vscale (- (/ 2 * l1)) a1))) by veq.
    apply rect_mem; nra.
  - replace (vadd _ _) with (vadd c (vadd (vscale (/ 2 * l0 * (2 * t - 1)) a0) (vscale (/ 2 * l1) a1))) by veq.
    apply rect_mem; nra.
Qed.

(** _line_intersects_rectangle: the returned points coincide, lie on the line and in the rectangle.
    No hypothesis on the axes: the pierce test excludes dependent axes *)
Lemma line_intersects_rectangle_ok (lp ld c a0 a1 : V3R) (h0 h1 eps : R) d c1 c2 t :
  dot ld ld = 1 -> 0 <= eps ->
  line_intersects_rectangle lp ld c a0 a1 h0 h1 eps = Some (d, c1, c2, t) ->
  d = 0 /\ c1 = c2 /\ c1 = vadd lp (vscale t ld) /\
  exists s0 s1, Rabs s0 <= h0 /\ Rabs s1 <= h1 /\ c2 = vadd c (vadd (vscale s0 a0) (vscale s1 a1)).
Proof.
  intros Hu He0. unfold line_intersects_rectangle. cbv zeta. ops_R.
  rb_case; [|discriminate].
  destruct (plane_basis_from_normal ld) as [u v] eqn:Hb.
  pose proof (pierce_det ld a0 a1 u v Hu Hb) as Hdet.
  assert (Hnz : dot a0 u * dot a1 v - dot a1 u * dot a0 v <> 0).
  { rewrite Hdet. intros Z. rewrite Z, Rabs_R0 in E. lra. }
  pose proof (pierce_point lp ld c a0 a1 u v Hu Hb Hnz) as Hpt. cbv zeta in Hpt.
  set (s0 := (dot a1 v * dot u (vsub lp c) - dot a1 u * dot v (vsub lp c)) / _) in *.
  set (s1 := (dot a0 u * dot v (vsub lp c) - dot a0 v * dot u (vsub lp c)) / _) in *.
  destruct (Rleb (Rabs s0) h0 && Rleb (Rabs s1) h1) eqn:Et; [|discriminate].
  apply andb_true_iff in Et. destruct Et as [E1 E2]. rb_hyp E1. rb_hyp E2.
  intros H. injection H as <- <- <- <-.
  split; [reflexivity|]. split; [exact Hpt|]. split; [reflexivity|].
  exists s0, s1. auto.
Qed.

(** the inner edge loop of _line_to_rectangle (`if best_dist < epsilon: break`) *)
Definition rect_inner (lp ld : V3R) (eps : R) : list (V3R * V3R) -> R * V3R * V3R * R -> R * V3R * V3R * R :=
  fix inner (segs : list (V3R * V3R)) (best : R * V3R * V3R * R) : R * V3R * V3R * R :=
  match segs with
  | [] => best
  | se :: rest =>
    let '(bd, _, _, _) := best in
    let '(d, cpl, cps, t, _, _) := line_to_line_segment_full lp ld (fst se) (snd se) eps in
    let best' := if ltb (Ops:=ROps) d bd then (d, cpl, cps, t) else best in
    let '(bd', _, _, _) := best' in
    if ltb (Ops:=ROps) bd' eps then best' else inner rest best'
  end.

Lemma rect_inner_ok (B : set3) (lp ld : V3R) (eps : R) (segs : list (V3R * V3R)) (best : R * V3R * V3R * R) :
  dot ld ld = 1 -> eps <= 1 ->
  (forall se x, In se segs -> segment_set (fst se) (snd se) x -> B x) ->
  lt_ok B lp ld best -> lt_ok B lp ld (rect_inner lp ld eps segs best).
Proof.
  intros Hu He. revert best. induction segs as [|se rest IH]; intros best Hin Hb; [exact Hb|].
  change (rect_inner lp ld eps (se :: rest) best) with
    (let '(bd, _, _, _) := best in
     let '(d, cpl, cps, t, _, _) := line_to_line_segment_full lp ld (fst se) (snd se) eps in
     let best' := if ltb (Ops:=ROps) d bd then (d, cpl, cps, t) else best in
     let '(bd', _, _, _) := best' in
     if ltb (Ops:=ROps) bd' eps then best' else rect_inner lp ld eps rest best').
  pose proof (edge_step_ok B lp ld eps se best Hu He (fun x => Hin se x (or_introl eq_refl)) Hb) as Hs.
  destruct best as [[[bd b1] b2] bt].
  destruct (line_to_line_segment_full lp ld (fst se) (snd se) eps) as [[[[[d cpl] cps] t] s] arm].
  cbv zeta.
  destruct (if ltb (Ops:=ROps) d bd then (d, cpl, cps, t) else (bd, b1, b2, bt)) as [[[bd' b1'] b2'] bt'].
  destruct (ltb (Ops:=ROps) bd' eps); [exact Hs|].
  apply IH; [|exact Hs]. intros se' x Hi. apply Hin. right. exact Hi.
Qed.

Lemma pair4_eq {A B C D : Type} (a a' : A) (b b' : B) (c c' : C) (d d' : D) :
  (a, b, c, d) = (a', b', c', d') -> a = a' /\ b = b' /\ c = c' /\ d = d'.
Proof. intros H. inversion H. repeat split. Qed.

(** _line_to_rectangle: both arms.  Only [0 <= l0, l1] is needed (edges inside the rectangle) *)
Lemma line_to_rectangle_full_ok (lp ld c a0 a1 : V3R) (l0 l1 eps : R) d c1 c2 t arm :
  dot ld ld = 1 -> 0 <= eps <= 1 -> 0 <= l0 -> 0 <= l1 ->
  line_to_rectangle_full lp ld c a0 a1 l0 l1 eps = (d, c1, c2, t, arm) ->
  d < max_float ->
  feasible (line_set lp ld) (rectangle_set c a0 a1 l0 l1) d c1 c2 /\ c1 = vadd lp (vscale t ld).
Proof.
  intros Hu [He0 He1] H0 H1. unfold line_to_rectangle_full. rewrite half_eq.
  cbv zeta.
  destruct (line_intersects_rectangle lp ld c a0 a1 (mul half l0) (mul half l1) eps) as [[[[d0 cpl] cpr] t0]|] eqn:EI.
  - intros H _. apply pair5_eq in H. destruct H as (<- & <- & <- & <- & _).
    apply line_intersects_rectangle_ok in EI; auto.
    destruct EI as (-> & <- & Hc & s0 & s1 & Hs0 & Hs1 & Hr). split; [|exact Hc].
    apply feasible_common; [rewrite Hc; apply line_mem|].
    rewrite Hr. rewrite half_R in Hs0, Hs1. ops_R. exists s0, s1. repeat split; auto; lra.
  - 
    match goal with |- context [fold_left ?f ?l ?i] => set (fr := fold_left f l i) end.
    assert (Hfr : lt_ok (rectangle_set c a0 a1 l0 l1) lp ld fr).
    { unfold fr. apply fold_left_inv; [apply lt_ok_init|].
      intros best segs Hin Hb.
      change (lt_ok (rectangle_set c a0 a1 l0 l1) lp ld (rect_inner lp ld eps segs best)).
      apply rect_inner_ok; auto.
      intros se x Hse. eapply rect_edge_in; eauto. }
    clearbody fr. destruct fr as [[[d0 cpl] cpt] t0].
    intros H. apply pair5_eq in H. destruct H as (<- & <- & <- & <- & _). exact Hfr.
Qed.

Lemma line_to_rectangle_feasible (lp ld c a0 a1 : V3R) (l0 l1 eps : R) d c1 c2 :
  dot ld ld = 1 -> 0 <= eps <= 1 -> 0 <= l0 -> 0 <= l1 ->
  line_to_rectangle lp ld c a0 a1 l0 l1 eps = (d, c1, c2) ->
  d < max_float ->
  feasible (line_set lp ld) (rectangle_set c a0 a1 l0 l1) d c1 c2.
Proof.
  intros Hu He H0 H1. unfold line_to_rectangle.
  destruct (line_to_rectangle_full lp ld c a0 a1 l0 l1 eps) as [[[[d' c1'] c2'] t] arm] eqn:E.
  intros H. apply pair3_eq in H. destruct H as (<- & <- & <-). intros Hf.
  eapply line_to_rectangle_full_ok; eauto.
Qed.

Lemma line_segment_to_rectangle_feasible (s e c a0 a1 : V3R) (l0 l1 eps : R) d c1 c2 :
  s <> e -> 0 <= eps <= 1 -> 0 <= l0 -> 0 <= l1 ->
  line_segment_to_rectangle s e c a0 a1 l0 l1 eps = (d, c1, c2) ->
  d < max_float ->
  feasible (segment_set s e) (rectangle_set c a0 a1 l0 l1) d c1 c2.
Proof.
  intros Hne He H0 H1. unfold line_segment_to_rectangle, line_segment_to_rectangle_full.
  destruct (convert_segment_unit s e Hne) as (sd & len & -> & Hlen & Hsd & Hd).
  destruct (line_to_rectangle_full s sd c a0 a1 l0 l1 eps) as [[[[d' cps] cpt] t] arm] eqn:E.
  ops_R. rb_case; [|rb_case].
  - destruct (point_to_rectangle s c a0 a1 l0 l1) as [d'' cpt'] eqn:Ep. cbn [fst].
    intros H _. apply pair3_eq in H. destruct H as (<- & <- & <-).
    apply feasible_point_in; [apply seg_start_in|]. apply point_to_rectangle_feasible; assumption.
  - destruct (point_to_rectangle e c a0 a1 l0 l1) as [d'' cpt'] eqn:Ep. cbn [fst].
    intros H _. apply pair3_eq in H. destruct H as (<- & <- & <-).
    apply feasible_point_in; [apply seg_end_in|]. apply point_to_rectangle_feasible; assumption.
  - cbn [fst]. intros H Hf. apply pair3_eq in H. destruct H as (<- & <- & <-).
    destruct (line_to_rectangle_full_ok _ _ _ _ _ _ _ _ _ _ _ _ _ Hsd He H0 H1 E Hf) as [(G1 & G2 & G3 & G4) Hc].
    repeat split; auto. rewrite Hc. apply (seg_param_in s e sd len t); [lra|exact Hd|lra].
Qed.

(** ** 5. polygon pairs *)
Definition R3_feasible (A B : set3) (r : R3R) : Prop := feasible A B (rd r) (rp1 r) (rp2 r).
Definition R3_feasible_eps (A B : set3) (eps : R) (r : R3R) : Prop := feasible_eps A B eps (rd r) (rp1 r) (rp2 r).

Lemma feasible_mono (A A' B B' : set3) d p1 p2 :
  (forall x, A x -> A' x) -> (forall x, B x -> B' x) -> feasible A B d p1 p2 -> feasible A' B' d p1 p2.
Proof. intros HA HB (H1 & H2 & H3 & H4). repeat split; auto. Qed.
Lemma feasible_swap (A B : set3) d p1 p2 : feasible A B d p1 p2 -> feasible B A d p2 p1.
Proof. intros (H1 & H2 & H3 & H4). repeat split; auto. rewrite norm_sub_comm. exact H4. Qed.
Lemma R3_feasible_rswap (A B : set3) (r : R3R) : R3_feasible A B r -> R3_feasible B A (rswap r).
Proof. destruct r as [[d p1] p2]. apply feasible_swap. Qed.
Lemma below_rswap (A B : set3) (r : R3R) : below (R3_feasible A B) r -> below (R3_feasible B A) (rswap r).
Proof. intros H Hlt. apply R3_feasible_rswap. apply H. destruct r as [[d p1] p2]. exact Hlt. Qed.

(** the early exit `return 0.0, p1, p2` of a candidate within eps *)
Lemma feps_exit (A B : set3) (eps : R) (c : R3R) :
  eps < max_float -> below (R3_feasible_eps A B eps) c -> rd c <= eps ->
  below (R3_feasible_eps A B eps) (0, rp1 c, rp2 c).
Proof.
  intros He Hc Hle _. destruct c as [[d p1] p2]. unfold rd, rp1, rp2 in *. cbn [fst snd] in *.
  destruct Hc as (H1 & H2 & H3 & H4); [unfold rd; cbn [fst]; lra|].
  unfold R3_feasible_eps, rd, rp1, rp2 in *. cbn [fst snd] in *.
  repeat split; auto; [lra|]. right. split; [reflexivity|]. destruct H4 as [H4|[H4 H5]]; lra.
Qed.

Lemma tri_edges_nondeg (a b c : V3R) (se : V3R * V3R) :
  cross (vsub b a) (vsub c a) <> vzero -> In se (tri_edges a b c) -> fst se <> snd se.
Proof.
  intros Hnd [<- | [<- | [<- | []]]]; cbn [fst snd]; intros E; apply Hnd; subst; veq.
Qed.

Lemma unit_nonzero (a : V3R) : dot a a = 1 -> a <> vzero.
Proof. intros H E. rewrite E in H. vunfold. lra. Qed.

(** a candidate of the first loop of triangle_to_X: an edge of the triangle against [B] *)
Lemma tri_edge_cand (a b c : V3R) (B : set3) (se : V3R * V3R) (r : R3R) :
  In se (tri_edges a b c) ->
  below (R3_feasible (segment_set (fst se) (snd se)) B) r -> below (R3_feasible (triangle_set a b c) B) r.
Proof.
  intros Hin H Hlt. eapply feasible_mono; [| |exact (H Hlt)]; [|auto].
  intros x Hx. eapply tri_edge_in; eauto.
Qed.

Lemma lstt_below (s e a b c : V3R) (eps : R) :
  s <> e -> 0 <= eps <= 1 -> cross (vsub b a) (vsub c a) <> vzero ->
  below (R3_feasible (segment_set s e) (triangle_set a b c)) (line_segment_to_triangle s e a b c eps).
Proof.
  intros Hne He Hnd Hlt. destruct (line_segment_to_triangle s e a b c eps) as [[d p1] p2] eqn:E.
  eapply line_segment_to_triangle_feasible; eauto.
Qed.
Lemma lstr_below (s e c a0 a1 : V3R) (l0 l1 eps : R) :
  s <> e -> 0 <= eps <= 1 -> 0 <= l0 -> 0 <= l1 ->
  below (R3_feasible (segment_set s e) (rectangle_set c a0 a1 l0 l1)) (line_segment_to_rectangle s e c a0 a1 l0 l1 eps).
Proof.
  intros Hne He H0 H1 Hlt. destruct (line_segment_to_rectangle s e c a0 a1 l0 l1 eps) as [[d p1] p2] eqn:E.
  eapply line_segment_to_rectangle_feasible; eauto.
Qed.

Lemma below_feps (A B : set3) eps (r : R3R) : below (R3_feasible A B) r -> below (R3_feasible_eps A B eps) r.
Proof. intros H Hlt. apply feasible_feasible_eps. exact (H Hlt). Qed.

(** triangle_to_triangle: every edge of one triangle against the other, early `return 0.0` at <= eps *)
Theorem triangle_to_triangle_feasible (a1 b1 c1 a2 b2 c2 : V3R) (eps : R) d p1 p2 :
  cross (vsub b1 a1) (vsub c1 a1) <> vzero -> cross (vsub b2 a2) (vsub c2 a2) <> vzero -> 0 <= eps <= 1 ->
  triangle_to_triangle a1 b1 c1 a2 b2 c2 eps = (d, p1, p2) ->
  d < max_float ->
  feasible_eps (triangle_set a1 b1 c1) (triangle_set a2 b2 c2) eps d p1 p2.
Proof.
  intros Hn1 Hn2 He. unfold triangle_to_triangle.
  set (P := below (R3_feasible_eps (triangle_set a1 b1 c1) (triangle_set a2 b2 c2) eps)).
  pose proof max_float_gt_1 as HM.
  assert (Hex : forall c, P c -> rd c <= eps -> P (0, rp1 c, rp2 c)) by (intros c; apply feps_exit; lra).
  assert (C1 : forall r, In r (map (fun se => line_segment_to_triangle (fst se) (snd se) a2 b2 c2 eps) (tri_edges a1 b1 c1)) -> P r).
  { intros r Hr. apply in_map_iff in Hr. destruct Hr as (se & <- & Hin). apply below_feps.
    apply (tri_edge_cand _ _ _ _ se _ Hin). apply lstt_below; auto. eapply tri_edges_nondeg; [|exact Hin]; assumption. }
  assert (C2 : forall r, In r (map (fun se => rswap (line_segment_to_triangle (fst se) (snd se) a1 b1 c1 eps)) (tri_edges a2 b2 c2)) -> P r).
  { intros r Hr. apply in_map_iff in Hr. destruct Hr as (se & <- & Hin). apply below_feps. apply below_rswap.
    apply (tri_edge_cand _ _ _ _ se _ Hin). apply lstt_below; auto. eapply tri_edges_nondeg; [|exact Hin]; assumption. }
  destruct (scan_ret eps _ init_best) as [best ret] eqn:E1.
  assert (Hb : P best).
  { eapply scan_ret_inv; [| | |exact E1]; auto. apply below_init. }
  destruct ret.
  - intros -> Hlt. exact (Hb Hlt).
  - destruct (scan_ret eps _ best) as [best2 ret2] eqn:E2. cbn [fst].
    assert (Hb2 : P best2) by (eapply scan_ret_inv; [| | |exact E2]; auto).
    intros -> Hlt. exact (Hb2 Hlt).
Qed.

(** the literal 1e-6 of the callees *)
Lemma eps6_range : 0 <= eps6 (O:=ROps) <= 1.
Proof. split; [left; apply eps6_pos|]. unfold eps6. cbn [cst div ROps]. unfold Q2R. simpl. lra. Qed.

(** the four edges of a rectangle with positive side lengths and non-zero axes are non-degenerate *)
Lemma rect_edges_nondeg (c a0 a1 : V3R) (l0 l1 : R) (l : list (V3R * V3R)) (se : V3R * V3R) :
  0 < l0 -> 0 < l1 -> a0 <> vzero -> a1 <> vzero ->
  In l (rectangle_edges c (vscale (half * l0) a0) (vscale (half * l1) a1)) -> In se l -> fst se <> snd se.
Proof.
  intros H0 H1 Ha0 Ha1. unfold rectangle_edges, rectangle_segment. cbn [map]. rewrite half_R. ops_R.
  assert (K : forall (l : R) (a m : V3R), 0 < l -> a <> vzero -> vsub m (vscale (/ 2 * l) a) <> vadd m (vscale (/ 2 * l) a)).
  { intros l' a m Hl Ha E. apply Ha. destruct a, m. vunfold. injection E as E1 E2 E3. f_equal; nra. }
  intros [<- | [<- | []]] [<- | [<- | []]]; cbn [fst snd]; apply K; assumption.
Qed.

Lemma rect_edge_cand (c a0 a1 : V3R) (l0 l1 : R) (B : set3) l (se : V3R * V3R) (r : R3R) :
  0 <= l0 -> 0 <= l1 ->
  In l (rectangle_edges c (vscale (half * l0) a0) (vscale (half * l1) a1)) -> In se l ->
  below (R3_feasible (segment_set (fst se) (snd se)) B) r -> below (R3_feasible (rectangle_set c a0 a1 l0 l1) B) r.
Proof.
  intros H0 H1 Hl Hin H Hlt. eapply feasible_mono; [| |exact (H Hlt)]; [|auto].
  intros x Hx. eapply rect_edge_in; eauto.
Qed.

(** triangle_to_rectangle (callees with eps = 1e-6, no early exit) *)
Theorem triangle_to_rectangle_feasible (a b c rc a0 a1 : V3R) (l0 l1 : R) d p1 p2 :
  cross (vsub b a) (vsub c a) <> vzero -> a0 <> vzero -> a1 <> vzero -> 0 < l0 -> 0 < l1 ->
  triangle_to_rectangle a b c rc a0 a1 l0 l1 = (d, p1, p2) ->
  d < max_float ->
  feasible (triangle_set a b c) (rectangle_set rc a0 a1 l0 l1) d p1 p2.
Proof.
  intros Hnd Ha0 Ha1 H0 H1. unfold triangle_to_rectangle. rewrite half_eq. cbv zeta.
  set (P := below (R3_feasible (triangle_set a b c) (rectangle_set rc a0 a1 l0 l1))).
  pose proof eps6_range as H6.
  match goal with |- scan _ ?c2 (scan _ ?c1 _) = _ -> _ =>
    assert (C1 : forall r, In r c1 -> P r); [|assert (C2 : forall r, In r c2 -> P r)] end.
  { intros r Hr. apply in_map_iff in Hr. destruct Hr as (se & <- & Hin).
    apply (tri_edge_cand _ _ _ _ se _ Hin). apply lstr_below; auto; try lra. eapply tri_edges_nondeg; [|exact Hin]; assumption. }
  { intros r Hr. apply in_map_iff in Hr. destruct Hr as (se & <- & Hin).
    apply in_concat in Hin. destruct Hin as (l & Hl & Hin). apply below_rswap.
    apply (rect_edge_cand rc a0 a1 l0 l1 _ l se); auto; try lra.
    apply lstt_below; auto. apply (rect_edges_nondeg rc a0 a1 l0 l1 l se); auto. }
  intros E Hlt.
  assert (Hr : P (d, p1, p2)).
  { rewrite <- E. apply scan_inv; [apply scan_inv; [apply below_init|exact C1]|exact C2]. }
  exact (Hr Hlt).
Qed.

(** rectangle_to_rectangle: the `break` leaves only the inner loop; [eps] is only used by the break *)
Theorem rectangle_to_rectangle_feasible (c1 a10 a11 : V3R) (l10 l11 : R) (c2 a20 a21 : V3R) (l20 l21 eps : R) d p1 p2 :
  a10 <> vzero -> a11 <> vzero -> 0 < l10 -> 0 < l11 ->
  a20 <> vzero -> a21 <> vzero -> 0 < l20 -> 0 < l21 ->
  rectangle_to_rectangle c1 a10 a11 l10 l11 c2 a20 a21 l20 l21 eps = (d, p1, p2) ->
  d < max_float ->
  feasible (rectangle_set c1 a10 a11 l10 l11) (rectangle_set c2 a20 a21 l20 l21) d p1 p2.
Proof.
  intros A10 A11 L10 L11 A20 A21 L20 L21. unfold rectangle_to_rectangle. rewrite half_eq. cbv zeta.
  set (P := below (R3_feasible (rectangle_set c1 a10 a11 l10 l11) (rectangle_set c2 a20 a21 l20 l21))).
  pose proof eps6_range as H6.
  intros E Hlt.
  assert (Hr : P (d, p1, p2)).
  { rewrite <- E. apply (fold_scan_inv P).
    - apply (fold_scan_inv P); [apply below_init|].
      intros l se Hl Hin. apply (rect_edge_cand c1 a10 a11 l10 l11 _ l se); auto; try lra.
      apply lstr_below; auto; try lra. apply (rect_edges_nondeg c1 a10 a11 l10 l11 l se); auto.
    - intros l se Hl Hin. apply below_rswap. apply (rect_edge_cand c2 a20 a21 l20 l21 _ l se); auto; try lra.
      apply lstr_below; auto; try lra. apply (rect_edges_nondeg c2 a20 a21 l20 l21 l se); auto. }
  exact (Hr Hlt).
Qed.

(** ** rectangle_to_box *)
(** a vertex of convert_rectangle_to_vertices lies in the rectangle *)
Lemma rect_vertex_in (c a0 a1 : V3R) (l0 l1 : R) (v : V3R) :
  0 <= l0 -> 0 <= l1 -> In v (rectangle_vertices c a0 a1 l0 l1) -> rectangle_set c a0 a1 l0 l1 v.
Proof.
  intros H0 H1. unfold rectangle_vertices. cbn [map fst snd]. rewrite half_R. ops_R.
  intros [<- | [<- | [<- | [<- | []]]]]; apply rect_mem; lra.
Qed.

(** a face of convert_box_to_face is a rectangle contained in the box *)
Lemma box_face_in (T : Pose R) (sz : V3R) (i : nat) (positive : bool) fc f0 f1 fl0 fl1 (x : V3R) :
  0 <= vx sz -> 0 <= vy sz -> 0 <= vz sz ->
  box_face T sz i positive = (fc, f0, f1, fl0, fl1) ->
  rectangle_set fc f0 f1 fl0 fl1 x -> box_of T sz x.
Proof.
  intros Hx Hy Hz. unfold box_face. rewrite half_eq, half_R. ops_R.
  unfold box_of, box_set, pose_x, pose_y, pose_z.
  destruct i as [|[|i]]; intros H; apply pair5_eq in H; destruct H as (<- & <- & <- & <- & <-);
    intros (k0 & k1 & Hk0 & Hk1 & ->); cbn [nthv].
  - exists ((if positive then 1 else - 1) * / 2 * vx sz), k0, k1.
    split; [destruct positive; apply Rabs_le; lra|]. split; [exact Hk0|]. split; [exact Hk1|]. destruct positive; veq.
  - exists k0, ((if positive then 1 else - 1) * / 2 * vy sz), k1.
    split; [exact Hk0|]. split; [destruct positive; apply Rabs_le; lra|]. split; [exact Hk1|]. destruct positive; veq.
  - exists k0, k1, ((if positive then 1 else - 1) * / 2 * vz sz).
    split; [exact Hk0|]. split; [exact Hk1|]. split; [destruct positive; apply Rabs_le; lra|].
    replace (col (rot T) (S (S i))) with (col (rot T) 2) by reflexivity. destruct positive; veq.
Qed.

(** the face axes and lengths *)
Lemma box_face_wf (T : Pose R) (sz : V3R) (i : nat) (positive : bool) fc f0 f1 fl0 fl1 :
  is_rotation (rot T) -> 0 < vx sz -> 0 < vy sz -> 0 < vz sz ->
  box_face T sz i positive = (fc, f0, f1, fl0, fl1) ->
  f0 <> vzero /\ f1 <> vzero /\ 0 < fl0 /\ 0 < fl1.
Proof.
  intros HR Hx Hy Hz. unfold box_face.
  destruct i as [|[|i]]; intros H; apply pair5_eq in H; destruct H as (_ & <- & <- & <- & <-);
    repeat split; auto; apply unit_nonzero; apply rotation_col_unit; exact HR.
Qed.

(** the vertex loop `if dist <= epsilon: return dist, vertex, closest_point_box` *)
Definition box_inside (T : Pose R) (sz : V3R) (eps : R) : list V3R -> option R3R :=
  fix inside (vs : list V3R) : option R3R :=
    match vs with
    | [] => None
    | v :: rest => let '(d, cpb) := point_to_box v T sz in
                   if leb (Ops:=ROps) d eps then Some (d, v, cpb) else inside rest
    end.

Lemma box_inside_some (T : Pose R) (sz : V3R) (eps : R) (vs : list V3R) (r : R3R) :
  box_inside T sz eps vs = Some r ->
  exists v, In v vs /\ point_to_box v T sz = (rd r, rp2 r) /\ rp1 r = v.
Proof.
  induction vs as [|v rest IH]; [discriminate|].
  change (box_inside T sz eps (v :: rest)) with
    (let '(d, cpb) := point_to_box v T sz in
     if leb (Ops:=ROps) d eps then Some (d, v, cpb) else box_inside T sz eps rest).
  destruct (point_to_box v T sz) as [d cpb] eqn:E. destruct (leb (Ops:=ROps) d eps).
  - intros H. injection H as <-. exists v. split; [left; reflexivity|]. split; [exact E|reflexivity].
  - intros H. destruct (IH H) as (v' & Hin & Hp & Hv). exists v'. split; [right; exact Hin|]. auto.
Qed.

Theorem rectangle_to_box_feasible (rc a0 a1 : V3R) (l0 l1 : R) (T : Pose R) (sz : V3R) (eps : R) d p1 p2 :
  a0 <> vzero -> a1 <> vzero -> 0 < l0 -> 0 < l1 ->
  is_rotation (rot T) -> 0 < vx sz -> 0 < vy sz -> 0 < vz sz ->
  rectangle_to_box rc a0 a1 l0 l1 T sz eps = (d, p1, p2) ->
  d < max_float ->
  feasible (rectangle_set rc a0 a1 l0 l1) (box_of T sz) d p1 p2.
Proof.
  intros A0 A1 L0 L1 HR Sx Sy Sz. unfold rectangle_to_box, rectangle_to_box_full.
  match goal with |- context [match ?X with Some _ => _ | None => _ end] =>
    change X with (box_inside T sz eps (rectangle_vertices rc a0 a1 l0 l1)) end.
  destruct (box_inside T sz eps (rectangle_vertices rc a0 a1 l0 l1)) as [r|] eqn:EI.
  - cbn [fst]. intros -> _. apply box_inside_some in EI. destruct EI as (v & Hin & Hp & Hv).
    cbn [rd rp1 rp2 fst snd] in *. subst v.
    apply feasible_point_in; [apply rect_vertex_in; auto; lra|].
    apply point_to_box_feasible; auto; lra.
  - cbn [fst]. cbv zeta.
    set (P := below (R3_feasible (rectangle_set rc a0 a1 l0 l1) (box_of T sz))).
    assert (C : forall positive r,
      In r (map (fun i => let '(fc, f0, f1, fl0, fl1) := box_face T sz i positive in
                          rectangle_to_rectangle rc a0 a1 l0 l1 fc f0 f1 fl0 fl1 eps) [0%nat; 1%nat; 2%nat]) -> P r).
    { intros positive r Hr. apply in_map_iff in Hr. destruct Hr as (i & <- & _).
      destruct (box_face T sz i positive) as [[[[fc f0] f1] fl0] fl1] eqn:EF.
      destruct (box_face_wf _ _ _ _ _ _ _ _ _ HR Sx Sy Sz EF) as (F0 & F1 & FL0 & FL1).
      intros Hlt. destruct (rectangle_to_rectangle rc a0 a1 l0 l1 fc f0 f1 fl0 fl1 eps) as [[d' q1] q2] eqn:ER.
      unfold R3_feasible. cbn [rd rp1 rp2 fst snd] in *.
      eapply feasible_mono; [| |eapply rectangle_to_rectangle_feasible; [| | | | | | | |exact ER|exact Hlt]]; auto.
      intros x Hx. eapply box_face_in; [| | |exact EF|exact Hx]; lra. }
    intros E Hlt.
    assert (Hr : P (d, p1, p2)).
    { rewrite <- E. apply scan_inv; [apply scan_inv; [apply below_init|apply C]|apply C]. }
    exact (Hr Hlt).
Qed.

(** ** non-vacuity: the hypotheses (including [d < max_float]) hold on concrete inputs.
    The vertical line through (1/4, 1/4) pierces the triangle (0,0,0) (1,0,0) (0,1,0) and the square
    [-1,1]^2 of the plane z = 0. *)
Lemma eps6_lt_1 : eps6 (O:=ROps) < 1.
Proof. unfold eps6. cbn [cst div ROps]. unfold Q2R. simpl. lra. Qed.

Lemma sqrt_1' (x : R) : x = 1 -> R_sqrt.sqrt x = 1.
Proof. intros ->. apply sqrt_1. Qed.

Lemma plane_basis_ez : plane_basis_from_normal (V 0 0 1 : V3R) = (V (-1) 0 0, V 0 (-1) 0).
Proof.
  unfold plane_basis_from_normal. cbn [vx vy vz]. ops_R.
  rewrite (proj2 (Rleb_true (Rabs 0) (Rabs 0))) by lra.
  rewrite (sqrt_1' (0 * 0 + 1 * 1)) by ring.
  f_equal; f_equal; field.
Qed.

Definition wit_a : V3R := V 0 0 0.
Definition wit_b : V3R := V 1 0 0.
Definition wit_c : V3R := V 0 1 0.
Definition wit_ld : V3R := V 0 0 1.
Definition wit_lp (z : R) : V3R := V (1 / 4) (1 / 4) z.

Lemma line_to_triangle_full_wit (z : R) :
  exists c1 c2, line_to_triangle_full (wit_lp z) wit_ld wit_a wit_b wit_c eps6 = (0, c1, c2, - z, 0%nat).
Proof.
  unfold line_to_triangle_full.
  replace (vsub wit_b wit_a) with (V 1 0 0 : V3R) by (unfold wit_a, wit_b; veq).
  replace (vsub wit_c wit_a) with (V 0 1 0 : V3R) by (unfold wit_a, wit_c; veq).
  replace (cross (V 1 0 0 : V3R) (V 0 1 0)) with (V 0 0 1 : V3R) by veq.
  assert (Hn : Support.norm_vector (V 0 0 1 : V3R) = V 0 0 1).
  { unfold Support.norm_vector, norm, dot. cbn [vx vy vz]. ops_R.
    rewrite (sqrt_1' (0 * 0 + 0 * 0 + 1 * 1)) by ring.
    rewrite (proj2 (Reqb_false 1 0)) by lra. veq. }
  rewrite Hn. unfold wit_ld at 1.
  replace (dot (V 0 0 1 : V3R) (V 0 0 1)) with 1 by (vunfold; ring).
  pose proof eps6_lt_1 as H6. pose proof eps6_pos as H6'. ops_R.
  rewrite Rabs_R1. rewrite (proj2 (Rltb_true _ _) H6).
  unfold wit_ld at 1. rewrite plane_basis_ez.
  replace (vsub (wit_lp z) wit_a) with (wit_lp z) by (unfold wit_lp, wit_a; veq).
  unfold wit_lp, wit_ld, dot. cbn [vx vy vz]. cbv zeta. unfold neqb. ops_R.
  replace (1 * -1 + 0 * 0 + 0 * 0) with (-1) by ring.
  replace (0 * 0 + 1 * -1 + 0 * 0) with (-1) by ring.
  replace (0 * -1 + 1 * 0 + 0 * 0) with 0 by ring.
  replace (1 * 0 + 0 * -1 + 0 * 0) with 0 by ring.
  replace (-1 * -1 - 0 * 0) with 1 by ring.
  rewrite (proj2 (Reqb_false 1 0)) by lra. cbn [negb].
  replace (-1 * (1 / 4) + 0 * (1 / 4) + 0 * z) with (- (1 / 4)) by ring.
  replace (0 * (1 / 4) + -1 * (1 / 4) + 0 * z) with (- (1 / 4)) by ring.
  replace ((-1 * - (1 / 4) - 0 * - (1 / 4)) / 1) with (1 / 4) by field.
  rewrite (proj2 (Rleb_true 0 (1 - 1 / 4 - 1 / 4))) by lra.
  rewrite (proj2 (Rleb_true 0 (1 / 4))) by lra. cbn [andb].
  eexists; eexists. f_equal. f_equal. ring.
Qed.

Example line_to_triangle_nonvacuous :
  exists lp ld a b c eps d c1 c2,
    dot ld ld = 1 /\ 0 <= eps <= 1 /\ line_to_triangle lp ld a b c eps = (d, c1, c2) /\ d < max_float /\
    feasible (line_set lp ld) (triangle_set a b c) d c1 c2.
Proof.
  destruct (line_to_triangle_full_wit 1) as (c1 & c2 & H).
  exists (wit_lp 1), wit_ld, wit_a, wit_b, wit_c, eps6, 0, c1, c2.
  assert (Hu : dot wit_ld wit_ld = 1) by (unfold wit_ld; vunfold; ring).
  assert (HL : line_to_triangle (wit_lp 1) wit_ld wit_a wit_b wit_c eps6 = (0, c1, c2))
    by (unfold line_to_triangle; rewrite H; reflexivity).
  pose proof max_float_gt_1 as HM. pose proof eps6_range as H6.
  split; [exact Hu|]. split; [exact H6|]. split; [exact HL|]. split; [lra|].
  apply (line_to_triangle_feasible _ _ _ _ _ _ _ _ _ Hu H6 HL). lra.
Qed.

Lemma convert_segment_wit : convert_segment_to_line (wit_lp (-1)) (wit_lp 1) = (wit_ld, 2).
Proof.
  unfold convert_segment_to_line.
  replace (vsub (wit_lp 1) (wit_lp (-1))) with (V 0 0 2 : V3R) by (unfold wit_lp; veq).
  assert (Hn : norm (V 0 0 2 : V3R) = 2).
  { unfold norm, dot. cbn [vx vy vz]. ops_R. replace (0 * 0 + 0 * 0 + 2 * 2) with (2 * 2) by ring.
    apply sqrt_square. lra. }
  rewrite Hn. ops_R. rewrite (proj2 (Rltb_true 0 2)) by lra. f_equal. unfold wit_ld. veq.
Qed.

Lemma line_segment_to_triangle_wit :
  exists c1 c2, line_segment_to_triangle (wit_lp (-1)) (wit_lp 1) wit_a wit_b wit_c eps6 = (0, c1, c2).
Proof.
  unfold line_segment_to_triangle, line_segment_to_triangle_full. rewrite convert_segment_wit.
  destruct (line_to_triangle_full_wit (-1)) as (c1 & c2 & ->). ops_R.
  rewrite (proj2 (Rltb_false (- -1) 0)) by lra. rewrite (proj2 (Rltb_false 2 (- -1))) by lra.
  exists c1, c2. reflexivity.
Qed.

Lemma wit_tri_nondeg : cross (vsub wit_b wit_a) (vsub wit_c wit_a) <> vzero.
Proof. unfold wit_a, wit_b, wit_c. vunfold. intros H. injection H as _ _ H. lra. Qed.

Example line_segment_to_triangle_nonvacuous :
  exists s e a b c eps d c1 c2,
    s <> e /\ 0 <= eps <= 1 /\ cross (vsub b a) (vsub c a) <> vzero /\
    line_segment_to_triangle s e a b c eps = (d, c1, c2) /\ d < max_float /\
    feasible (segment_set s e) (triangle_set a b c) d c1 c2.
Proof.
  destruct line_segment_to_triangle_wit as (c1 & c2 & H).
  exists (wit_lp (-1)), (wit_lp 1), wit_a, wit_b, wit_c, eps6, 0, c1, c2.
  assert (Hne : wit_lp (-1) <> wit_lp 1) by (unfold wit_lp; intros E; injection E as E; lra).
  pose proof max_float_gt_1 as HM. pose proof eps6_range as H6. pose proof wit_tri_nondeg as Hnd.
  split; [exact Hne|]. split; [exact H6|]. split; [exact Hnd|]. split; [exact H|]. split; [lra|].
  apply (line_segment_to_triangle_feasible _ _ _ _ _ _ _ _ _ Hne H6 Hnd H). lra.
Qed.

(** first triangle: edge (c1, a1) is the vertical segment; the first candidate is 0 <= eps: early exit *)
Definition wit_b1 : V3R := V 5 0 0.
Example triangle_to_triangle_nonvacuous :
  exists a1 b1 c1 a2 b2 c2 eps d p1 p2,
    cross (vsub b1 a1) (vsub c1 a1) <> vzero /\ cross (vsub b2 a2) (vsub c2 a2) <> vzero /\ 0 <= eps <= 1 /\
    triangle_to_triangle a1 b1 c1 a2 b2 c2 eps = (d, p1, p2) /\ d < max_float /\
    feasible_eps (triangle_set a1 b1 c1) (triangle_set a2 b2 c2) eps d p1 p2.
Proof.
  destruct line_segment_to_triangle_wit as (p1 & p2 & H).
  assert (HT : triangle_to_triangle (wit_lp 1) wit_b1 (wit_lp (-1)) wit_a wit_b wit_c eps6 = (0, p1, p2)).
  { unfold triangle_to_triangle, tri_edges. cbn [map fst snd scan_ret]. rewrite H.
    pose proof max_float_gt_1. pose proof eps6_pos. unfold init_best, rd, rp1, rp2. cbn [fst snd]. ops_R.
    rewrite (proj2 (Rltb_true 0 max_float)) by lra. rewrite (proj2 (Rleb_true 0 eps6)) by lra. reflexivity. }
  exists (wit_lp 1), wit_b1, (wit_lp (-1)), wit_a, wit_b, wit_c, eps6, 0, p1, p2.
  assert (Hn1 : cross (vsub wit_b1 (wit_lp 1)) (vsub (wit_lp (-1)) (wit_lp 1)) <> vzero).
  { unfold wit_b1, wit_lp. vunfold. intros E. injection E as E _ _. lra. }
  pose proof max_float_gt_1 as HM. pose proof eps6_range as H6. pose proof wit_tri_nondeg as Hn2.
  split; [exact Hn1|]. split; [exact Hn2|]. split; [exact H6|]. split; [exact HT|]. split; [lra|].
  apply (triangle_to_triangle_feasible _ _ _ _ _ _ _ _ _ _ Hn1 Hn2 H6 HT). lra.
Qed.

(** the square [-1,1]^2 in the plane z = 0 *)
Definition wit_rc : V3R := V 0 0 0.
Definition wit_a0 : V3R := V 1 0 0.
Definition wit_a1 : V3R := V 0 1 0.

Lemma line_to_rectangle_full_wit (z : R) :
  exists c1 c2, line_to_rectangle_full (wit_lp z) wit_ld wit_rc wit_a0 wit_a1 2 2 eps6 = (0, c1, c2, - z, 0%nat).
Proof.
  unfold line_to_rectangle_full, line_intersects_rectangle. rewrite half_eq, half_R.
  replace (cross wit_a0 wit_a1) with (V 0 0 1 : V3R) by (unfold wit_a0, wit_a1; veq).
  unfold wit_ld at 1.
  replace (dot (V 0 0 1 : V3R) (V 0 0 1)) with 1 by (vunfold; ring).
  pose proof eps6_lt_1 as H6. pose proof eps6_pos as H6'. ops_R.
  rewrite Rabs_R1. rewrite (proj2 (Rltb_true _ _) H6).
  unfold wit_ld at 1. rewrite plane_basis_ez.
  replace (vsub (wit_lp z) wit_rc) with (wit_lp z) by (unfold wit_lp, wit_rc; veq).
  unfold wit_lp, wit_ld, wit_a0, wit_a1, dot. cbn [vx vy vz]. cbv zeta. ops_R.
  replace (1 * -1 + 0 * 0 + 0 * 0) with (-1) by ring.
  replace (0 * 0 + 1 * -1 + 0 * 0) with (-1) by ring.
  replace (0 * -1 + 1 * 0 + 0 * 0) with 0 by ring.
  replace (1 * 0 + 0 * -1 + 0 * 0) with 0 by ring.
  replace (-1 * -1 - 0 * 0) with 1 by ring.
  replace (-1 * (1 / 4) + 0 * (1 / 4) + 0 * z) with (- (1 / 4)) by ring.
  replace (0 * (1 / 4) + -1 * (1 / 4) + 0 * z) with (- (1 / 4)) by ring.
  replace ((-1 * - (1 / 4) - 0 * - (1 / 4)) / 1) with (1 / 4) by field.
  rewrite (Rabs_right (1 / 4)) by lra.
  rewrite (proj2 (Rleb_true (1 / 4) (/ 2 * 2))) by lra. cbn [andb].
  eexists; eexists. f_equal. f_equal. ring.
Qed.

Lemma line_segment_to_rectangle_wit :
  exists c1 c2, line_segment_to_rectangle (wit_lp (-1)) (wit_lp 1) wit_rc wit_a0 wit_a1 2 2 eps6 = (0, c1, c2).
Proof.
  unfold line_segment_to_rectangle, line_segment_to_rectangle_full. rewrite convert_segment_wit.
  destruct (line_to_rectangle_full_wit (-1)) as (c1 & c2 & ->). ops_R.
  rewrite (proj2 (Rltb_false (- -1) 0)) by lra. rewrite (proj2 (Rltb_false 2 (- -1))) by lra.
  exists c1, c2. reflexivity.
Qed.

Lemma wit_ne : wit_lp (-1) <> wit_lp 1.
Proof. unfold wit_lp; intros E; injection E as E; lra. Qed.
Lemma wit_a0_nz : wit_a0 <> vzero.
Proof. apply unit_nonzero. unfold wit_a0. vunfold. ring. Qed.
Lemma wit_a1_nz : wit_a1 <> vzero.
Proof. apply unit_nonzero. unfold wit_a1. vunfold. ring. Qed.
Lemma wit_ld_nz : wit_ld <> vzero.
Proof. apply unit_nonzero. unfold wit_ld. vunfold. ring. Qed.

Example line_to_rectangle_nonvacuous :
  exists lp ld c a0 a1 l0 l1 eps d c1 c2,
    dot ld ld = 1 /\ 0 <= eps <= 1 /\ 0 <= l0 /\ 0 <= l1 /\
    line_to_rectangle lp ld c a0 a1 l0 l1 eps = (d, c1, c2) /\ d < max_float /\
    feasible (line_set lp ld) (rectangle_set c a0 a1 l0 l1) d c1 c2.
Proof.
  destruct (line_to_rectangle_full_wit 1) as (c1 & c2 & H).
  exists (wit_lp 1), wit_ld, wit_rc, wit_a0, wit_a1, 2, 2, eps6, 0, c1, c2.
  assert (Hu : dot wit_ld wit_ld = 1) by (unfold wit_ld; vunfold; ring).
  assert (HL : line_to_rectangle (wit_lp 1) wit_ld wit_rc wit_a0 wit_a1 2 2 eps6 = (0, c1, c2))
    by (unfold line_to_rectangle; rewrite H; reflexivity).
  pose proof max_float_gt_1 as HM. pose proof eps6_range as H6.
  assert (H2 : 0 <= 2) by lra.
  split; [exact Hu|]. split; [exact H6|]. split; [exact H2|]. split; [exact H2|]. split; [exact HL|]. split; [lra|].
  apply (line_to_rectangle_feasible _ _ _ _ _ _ _ _ _ _ _ Hu H6 H2 H2 HL). lra.
Qed.

Example line_segment_to_rectangle_nonvacuous :
  exists s e c a0 a1 l0 l1 eps d c1 c2,
    s <> e /\ 0 <= eps <= 1 /\ 0 <= l0 /\ 0 <= l1 /\
    line_segment_to_rectangle s e c a0 a1 l0 l1 eps = (d, c1, c2) /\ d < max_float /\
    feasible (segment_set s e) (rectangle_set c a0 a1 l0 l1) d c1 c2.
Proof.
  destruct line_segment_to_rectangle_wit as (c1 & c2 & H).
  exists (wit_lp (-1)), (wit_lp 1), wit_rc, wit_a0, wit_a1, 2, 2, eps6, 0, c1, c2.
  pose proof max_float_gt_1 as HM. pose proof eps6_range as H6. pose proof wit_ne as Hne.
  assert (H2 : 0 <= 2) by lra.
  split; [exact Hne|]. split; [exact H6|]. split; [exact H2|]. split; [exact H2|]. split; [exact H|]. split; [lra|].
  apply (line_segment_to_rectangle_feasible _ _ _ _ _ _ _ _ _ _ _ Hne H6 H2 H2 H). lra.
Qed.

(** no early exit in triangle_to_rectangle: the result is at most the first candidate, which is 0 *)
Example triangle_to_rectangle_nonvacuous :
  exists a b c rc a0 a1 l0 l1 d p1 p2,
    cross (vsub b a) (vsub c a) <> vzero /\ a0 <> vzero /\ a1 <> vzero /\ 0 < l0 /\ 0 < l1 /\
    triangle_to_rectangle a b c rc a0 a1 l0 l1 = (d, p1, p2) /\ d < max_float /\
    feasible (triangle_set a b c) (rectangle_set rc a0 a1 l0 l1) d p1 p2.
Proof.
  destruct (triangle_to_rectangle (wit_lp 1) wit_b1 (wit_lp (-1)) wit_rc wit_a0 wit_a1 2 2) as [[d p1] p2] eqn:HT.
  assert (Hd : d <= 0).
  { change d with (rd (d, p1, p2)). rewrite <- HT. unfold triangle_to_rectangle, tri_edges. cbn [map fst snd].
    eapply Rle_trans; [apply scan_le_best|]. eapply Rle_trans; [apply scan_le_first|].
    destruct line_segment_to_rectangle_wit as (q1 & q2 & ->). unfold rd. cbn [fst]. lra. }
  exists (wit_lp 1), wit_b1, (wit_lp (-1)), wit_rc, wit_a0, wit_a1, 2, 2, d, p1, p2.
  assert (Hn1 : cross (vsub wit_b1 (wit_lp 1)) (vsub (wit_lp (-1)) (wit_lp 1)) <> vzero).
  { unfold wit_b1, wit_lp. vunfold. intros E. injection E as E _ _. lra. }
  pose proof max_float_gt_1 as HM. pose proof wit_a0_nz as A0. pose proof wit_a1_nz as A1.
  assert (H2 : 0 < 2) by lra.
  split; [exact Hn1|]. split; [exact A0|]. split; [exact A1|]. split; [exact H2|]. split; [exact H2|].
  split; [exact HT|]. split; [lra|].
  apply (triangle_to_rectangle_feasible _ _ _ _ _ _ _ _ _ _ _ Hn1 A0 A1 H2 H2 HT). lra.
Qed.

(** the folds of [scan] only decrease the distance: "first candidate < max_float" implies [d < max_float] *)
Lemma fold_scan_le_best {S : Type} (brk : R3R -> R3R -> R3R -> bool) (f : S -> R3R) (ll : list (list S)) best :
  rd (fold_left (fun b segs => scan brk (map f segs) b) ll best) <= rd best.
Proof.
  revert best. induction ll as [|l ll IH]; intros best; cbn [fold_left]; [lra|].
  eapply Rle_trans; [apply IH|apply scan_le_best].
Qed.
Lemma fold_scan_le_first {S : Type} (brk : R3R -> R3R -> R3R -> bool) (f : S -> R3R) se l ll best :
  rd (fold_left (fun b segs => scan brk (map f segs) b) ((se :: l) :: ll) best) <= rd (f se).
Proof. cbn [fold_left map]. eapply Rle_trans; [apply fold_scan_le_best|apply scan_le_first]. Qed.

(** the square [1/4, 9/4] x {1/4} x [-1, 1]: its first edge is the vertical segment through (1/4, 1/4) *)
Definition wit_c1 : V3R := V (5 / 4) (1 / 4) 0.

Lemma rectangle_to_rectangle_wit_le (eps : R) :
  rd (rectangle_to_rectangle wit_c1 wit_a0 wit_ld 2 2 wit_rc wit_a0 wit_a1 2 2 eps) <= 0.
Proof.
  unfold rectangle_to_rectangle. rewrite half_eq, half_R. cbv zeta.
  eapply Rle_trans; [apply fold_scan_le_best|].
  unfold rectangle_edges at 1. unfold rectangle_segment. cbn [map].
  eapply Rle_trans; [apply fold_scan_le_first|]. cbn [fst snd]. ops_R.
  replace (vsub (vsub wit_c1 (vscale (/ 2 * 2) wit_a0)) (vscale (/ 2 * 2) wit_ld)) with (wit_lp (-1))
    by (unfold wit_c1, wit_a0, wit_ld, wit_lp; veq).
  replace (vadd (vsub wit_c1 (vscale (/ 2 * 2) wit_a0)) (vscale (/ 2 * 2) wit_ld)) with (wit_lp 1)
    by (unfold wit_c1, wit_a0, wit_ld, wit_lp; veq).
  destruct line_segment_to_rectangle_wit as (q1 & q2 & ->). unfold rd. cbn [fst]. lra.
Qed.

Example rectangle_to_rectangle_nonvacuous :
  exists c1 a10 a11 l10 l11 c2 a20 a21 l20 l21 eps d p1 p2,
    a10 <> vzero /\ a11 <> vzero /\ 0 < l10 /\ 0 < l11 /\ a20 <> vzero /\ a21 <> vzero /\ 0 < l20 /\ 0 < l21 /\
    rectangle_to_rectangle c1 a10 a11 l10 l11 c2 a20 a21 l20 l21 eps = (d, p1, p2) /\ d < max_float /\
    feasible (rectangle_set c1 a10 a11 l10 l11) (rectangle_set c2 a20 a21 l20 l21) d p1 p2.
Proof.
  pose proof (rectangle_to_rectangle_wit_le eps6) as Hd.
  destruct (rectangle_to_rectangle wit_c1 wit_a0 wit_ld 2 2 wit_rc wit_a0 wit_a1 2 2 eps6) as [[d p1] p2] eqn:HT.
  unfold rd in Hd. cbn [fst] in Hd.
  exists wit_c1, wit_a0, wit_ld, 2, 2, wit_rc, wit_a0, wit_a1, 2, 2, eps6, d, p1, p2.
  pose proof max_float_gt_1 as HM. pose proof wit_a0_nz as A0. pose proof wit_a1_nz as A1. pose proof wit_ld_nz as A2.
  assert (H2 : 0 < 2) by lra.
  repeat (split; [assumption|]). split; [lra|].
  apply (rectangle_to_rectangle_feasible _ _ _ _ _ _ _ _ _ _ _ _ _ _ A0 A2 H2 H2 A0 A1 H2 H2 HT). lra.
Qed.

(** the cube [-1,1]^2 x [0,2] posed with its first axis along z: its face (0, negative) is the square above *)
Definition wit_T : Pose R := P (M (V 0 1 0) (V 0 0 1) (V 1 0 0)) (V 0 0 1).
Definition wit_sz : V3R := V 2 2 2.

Lemma wit_T_rotation : is_rotation (rot wit_T).
Proof. intros v. unfold wit_T. vsimp. f_equal; ring. Qed.

Lemma box_face_wit : box_face wit_T wit_sz 0 false = (wit_rc, wit_a0, wit_a1, 2, 2).
Proof.
  unfold box_face. rewrite half_eq, half_R. unfold wit_T, wit_sz, wit_rc, wit_a0, wit_a1. vunfold.
  cbn [nthv vx vy vz].
  assert (E : V (0 + - (1) * / 2 * 2 * 0) (0 + - (1) * / 2 * 2 * 0) (1 + - (1) * / 2 * 2 * 1) = (V 0 0 0 : V3R))
    by (f_equal; field).
  rewrite E. reflexivity.
Qed.

Lemma box_inside_le (T : Pose R) (sz : V3R) (eps : R) (vs : list V3R) (r : R3R) :
  box_inside T sz eps vs = Some r -> rd r <= eps.
Proof.
  induction vs as [|v rest IH]; [discriminate|].
  change (box_inside T sz eps (v :: rest)) with
    (let '(d, cpb) := point_to_box v T sz in
     if leb (Ops:=ROps) d eps then Some (d, v, cpb) else box_inside T sz eps rest).
  destruct (point_to_box v T sz) as [d cpb] eqn:E. ops_R. rb_case.
  - intros H. injection H as <-. exact E0.
  - exact IH.
Qed.

Example rectangle_to_box_nonvacuous :
  exists rc a0 a1 l0 l1 T sz eps d p1 p2,
    a0 <> vzero /\ a1 <> vzero /\ 0 < l0 /\ 0 < l1 /\ is_rotation (rot T) /\ 0 < vx sz /\ 0 < vy sz /\ 0 < vz sz /\
    rectangle_to_box rc a0 a1 l0 l1 T sz eps = (d, p1, p2) /\ d < max_float /\
    feasible (rectangle_set rc a0 a1 l0 l1) (box_of T sz) d p1 p2.
Proof.
  destruct (rectangle_to_box wit_c1 wit_a0 wit_ld 2 2 wit_T wit_sz eps6) as [[d p1] p2] eqn:HT.
  pose proof max_float_gt_1 as HM. pose proof eps6_range as H6.
  assert (Hd : d < max_float).
  { change d with (rd (d, p1, p2)). rewrite <- HT. unfold rectangle_to_box, rectangle_to_box_full.
    match goal with |- context [match ?X with Some _ => _ | None => _ end] =>
      change X with (box_inside wit_T wit_sz eps6 (rectangle_vertices wit_c1 wit_a0 wit_ld 2 2)) end.
    destruct (box_inside wit_T wit_sz eps6 (rectangle_vertices wit_c1 wit_a0 wit_ld 2 2)) as [r|] eqn:EI; cbn [fst].
    - apply box_inside_le in EI. lra.
    - cbv zeta. eapply Rle_lt_trans; [apply scan_le_best|]. cbn [map].
      eapply Rle_lt_trans; [apply scan_le_first|]. rewrite box_face_wit.
      pose proof (rectangle_to_rectangle_wit_le eps6). lra. }
  exists wit_c1, wit_a0, wit_ld, 2, 2, wit_T, wit_sz, eps6, d, p1, p2.
  pose proof wit_a0_nz as A0. pose proof wit_ld_nz as A2. pose proof wit_T_rotation as HR.
  assert (H2 : 0 < 2) by lra.
  assert (Sx : 0 < vx wit_sz) by (cbn; lra). assert (Sy : 0 < vy wit_sz) by (cbn; lra). assert (Sz : 0 < vz wit_sz) by (cbn; lra).
  repeat (split; [assumption|]).
  apply (rectangle_to_box_feasible _ _ _ _ _ _ _ _ _ _ _ A0 A2 H2 H2 HR Sx Sy Sz HT Hd).
Qed.
