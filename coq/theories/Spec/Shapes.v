(** * The closed point sets of the colliders (specification vocabulary of C03 / C04 / C13).

    Every shape is the image [c + M.K] of a canonical set [K] (centred at the origin,
    aligned with the coordinate axes) under a pose [T = (M, c)]:
    [image T K x <-> exists k, K k /\ x = M k + c].  Nothing is assumed about [M] in
    the definitions; theorems state the hypotheses they need ([is_rotation M]). *)
From Coq Require Import Reals Lra Psatz List.
From D3 Require Import Base.Ops Base.Vec Base.RVec Base.RVec2 Spec.Convex.
Import ListNotations.
Local Open Scope R_scope.

Definition image (T : Pose R) (K : set3) : set3 :=
  fun x => exists k, K k /\ x = transform_point T k.

(** ** canonical sets *)
Definition ball_K (r : R) : set3 := fun k => dot k k <= r * r.
(** box with half lengths [h] *)
Definition box_K (h : V3R) : set3 :=
  fun k => Rabs (vx k) <= vx h /\ Rabs (vy k) <= vy h /\ Rabs (vz k) <= vz h.
(** cylinder of radius [r] and length [l] along z, centred *)
Definition cylinder_K (r l : R) : set3 :=
  fun k => vx k * vx k + vy k * vy k <= r * r /\ Rabs (vz k) <= l / 2.
(** capsule: all points within [r] of the segment [-h/2, h/2] on the z axis *)
Definition capsule_K (r h : R) : set3 :=
  fun k => exists t, Rabs t <= h / 2 /\ dot (vsub k (V 0 0 t)) (vsub k (V 0 0 t)) <= r * r.
(** cone: base disk of radius [r] in the plane z = 0, apex at (0, 0, h) *)
Definition cone_K (r h : R) : set3 :=
  fun k => 0 <= vz k <= h /\
           vx k * vx k + vy k * vy k <= (r * (1 - vz k / h)) * (r * (1 - vz k / h)).
Definition ellipsoid_K (a : V3R) : set3 :=
  fun k => (vx k / vx a) * (vx k / vx a) + (vy k / vy a) * (vy k / vy a)
           + (vz k / vz a) * (vz k / vz a) <= 1.
(** flat shapes in the plane z = 0 *)
Definition disk_K (r : R) : set3 := fun k => vz k = 0 /\ vx k * vx k + vy k * vy k <= r * r.
Definition ellipse_K (r0 r1 : R) : set3 :=
  fun k => vz k = 0 /\ (vx k / r0) * (vx k / r0) + (vy k / r1) * (vy k / r1) <= 1.

(** matrix with given columns *)
Definition of_cols (a b c : V3R) : M3 R :=
  M (V (vx a) (vx b) (vx c)) (V (vy a) (vy b) (vy c)) (V (vz a) (vz b) (vz c)).

(** ** the colliders' point sets *)
Definition sphere_set (c : V3R) (r : R) : set3 := image (P ident c) (ball_K r).
Definition box_set (T : Pose R) (size : V3R) : set3 := image T (box_K (vscale (/ 2) size)).
Definition box_half_set (T : Pose R) (half_lengths : V3R) : set3 := image T (box_K half_lengths).
Definition cylinder_set (T : Pose R) (r l : R) : set3 := image T (cylinder_K r l).
Definition capsule_set (T : Pose R) (r h : R) : set3 := image T (capsule_K r h).
Definition cone_set (T : Pose R) (r h : R) : set3 := image T (cone_K r h).
Definition ellipsoid_set (T : Pose R) (radii : V3R) : set3 := image T (ellipsoid_K radii).
(** disk given by centre, radius and unit normal, stated intrinsically; it is the image
    of the canonical disk under ANY orthonormal frame whose third column is the
    normal ([disk_set_image] below) *)
Definition disk_set (c : V3R) (r : R) (n : V3R) : set3 :=
  fun p => dot (vsub p c) n = 0 /\ dot (vsub p c) (vsub p c) <= r * r.
(** ellipse given by centre, two axes (rows of the 2x3 array) and two radii *)
Definition ellipse_set (c a0 a1 : V3R) (r0 r1 : R) : set3 :=
  image (P (of_cols a0 a1 (cross a0 a1)) c) (ellipse_K r0 r1).
(** vertex hull placed by a pose (MeshGraph); ConvexHullVertices is the identity pose *)
Definition hull_set (T : Pose R) (vs : list V3R) : set3 :=
  conv_hull (map (transform_point T) vs).
(** Margin wrapper: Minkowski sum with a ball of radius [m] *)
Definition inflate (S : set3) (m : R) : set3 :=
  fun p => exists s b, S s /\ dot b b <= m * m /\ p = vadd s b.

(** ** axis-aligned boxes as pairs (mins, maxs) *)
Definition encloses (S : set3) (lo hi : V3R) : Prop :=
  forall x, S x -> forall k, (k < 3)%nat -> nthv lo k <= nthv x k <= nthv hi k.
Definition tight (S : set3) (lo hi : V3R) : Prop :=
  forall k, (k < 3)%nat -> (exists x, S x /\ nthv x k = nthv hi k) /\ (exists x, S x /\ nthv x k = nthv lo k).
Definition aabb_exact (S : set3) (lo hi : V3R) : Prop := encloses S lo hi /\ tight S lo hi.
Definition aabb_overlap (lo1 hi1 lo2 hi2 : V3R) : Prop :=
  forall k, (k < 3)%nat -> nthv lo1 k <= nthv hi2 k /\ nthv lo2 k <= nthv hi1 k.

(** ** general facts *)
Lemma image_dot (T : Pose R) (k d : V3R) :
  dot (transform_point T k) d = dot k (mulTV (rot T) d) + dot (trans T) d.
Proof. vsimp; ring. Qed.

(** support of an image = image of the support along the pulled-back direction; holds
    for any matrix, orthonormal or not *)
Lemma image_support (T : Pose R) (K : set3) (d k : V3R) :
  is_support K (mulTV (rot T) d) k -> is_support (image T K) d (transform_point T k).
Proof.
  intros [Hk Hmax]. split.
  - exists k; auto.
  - intros x (k' & Hk' & ->). rewrite !image_dot. specialize (Hmax k' Hk'). lra.
Qed.

Lemma image_rotation_iff (T : Pose R) (K : set3) (p : V3R) :
  is_rotation (rot T) -> (image T K p <-> K (inverse_transform_point T p)).
Proof.
  intros H; split.
  - intros (k & Hk & ->). rewrite inverse_transform_transform; auto.
  - intros Hk. exists (inverse_transform_point T p). split; auto.
    symmetry. apply transform_inverse_transform; auto.
Qed.

Lemma sphere_set_iff (c : V3R) (r : R) (p : V3R) :
  sphere_set c r p <-> dot (vsub p c) (vsub p c) <= r * r.
Proof.
  unfold sphere_set. rewrite image_rotation_iff by (apply rotation_ident).
  unfold ball_K.
  replace (inverse_transform_point (P ident c) p) with (vsub p c); [tauto|].
  vsimp. f_equal; ring.
Qed.

Lemma disk_set_image (c : V3R) (r : R) (x y n : V3R) (p : V3R) :
  is_rotation (of_cols x y n) ->
  (disk_set c r n p <-> image (P (of_cols x y n) c) (disk_K r) p).
Proof.
  intros H. rewrite image_rotation_iff by auto.
  unfold disk_set, disk_K, inverse_transform_point. cbn [rot trans].
  set (w := vsub p c).
  assert (Hn : vz (mulTV (of_cols x y n) w) = dot w n) by (destruct w, x, y, n; vunfold; cbn; ring).
  assert (Hd : dot (mulTV (of_cols x y n) w) (mulTV (of_cols x y n) w) = dot w w)
    by (apply rotation_mulTV_dot; auto).
  clearbody w.
  set (k := mulTV (of_cols x y n) w) in *. clearbody k.
  destruct k as [k0 k1 k2]. unfold dot in Hd at 1. cbn [vx vy vz] in *.
  cbn [add mul ROps] in Hd.
  split; intros [A B]; split; try lra; nra.
Qed.

(** every exact box of a set is determined by support points along +-e_k *)
Lemma aabb_of_supports (S : set3) (lo hi : V3R) :
  (forall k, (k < 3)%nat ->
     (exists s, is_support S (eR k) s /\ nthv s k = nthv hi k) /\
     (exists s, is_support S (vneg (eR k)) s /\ nthv s k = nthv lo k)) ->
  aabb_exact S lo hi.
Proof.
  intros H. split.
  - intros x Hx k Hk. destruct (H k Hk) as [(s & [Hs Hm] & Es) (s' & [Hs' Hm'] & Es')].
    specialize (Hm x Hx). specialize (Hm' x Hx).
    rewrite !dot_eR_r in Hm. rewrite !dot_eR_neg_r in Hm'. lra.
  - intros k Hk. destruct (H k Hk) as [(s & [Hs Hm] & Es) (s' & [Hs' Hm'] & Es')].
    split; [exists s|exists s']; auto.
Qed.

(** broad-phase completeness: boxes enclosing two sets that meet must overlap *)
Lemma intersect_aabb_overlap (A B : set3) (lo1 hi1 lo2 hi2 : V3R) :
  encloses A lo1 hi1 -> encloses B lo2 hi2 -> intersect A B -> aabb_overlap lo1 hi1 lo2 hi2.
Proof.
  intros HA HB (x & Ha & Hb) k Hk.
  specialize (HA x Ha k Hk). specialize (HB x Hb k Hk). lra.
Qed.

(** Margin: support of an inflated set *)
Lemma inflate_support (S : set3) (m : R) (d s : V3R) :
  0 <= m -> d <> vzero -> is_support S d s ->
  is_support (inflate S m) d (vadd s (vscale m (vdivs d (norm d)))).
Proof.
  intros Hm Hd [Hs Hmax].
  assert (Hn : norm d <> 0) by (intros E; apply Hd; apply norm_zero_iff; auto).
  pose proof (norm_nonneg d) as Hn0. pose proof (norm_sq d) as Hsq.
  split.
  - exists s, (vscale m (vdivs d (norm d))). repeat split; auto.
    replace (dot (vscale m (vdivs d (norm d))) (vscale m (vdivs d (norm d))))
      with (m * m * (dot d d / (norm d * norm d))).
    + rewrite <- Hsq. replace (norm d * norm d / (norm d * norm d)) with 1 by (field; auto). lra.
    + vsimp. cbn [norm] in *. field. auto.
  - intros x (s' & b & Hs' & Hb & ->).
    rewrite !dot_add_l. specialize (Hmax s' Hs').
    pose proof (cs3_radius b d m Hm Hb) as Hc.
    replace (dot (vscale m (vdivs d (norm d))) d) with (m * (dot d d / norm d)).
    + rewrite <- Hsq. replace (norm d * norm d / norm d) with (norm d) by (field; auto). lra.
    + vsimp. cbn [norm] in *. field. auto.
Qed.
