(** * More facts about [conv_hull] (Spec/Convex.v): generators, monotonicity,
      segments/triangles as hulls, squared-norm form of the minimum-norm certificate
      with slack.  Used by C18 (simplex solvers). *)
From Coq Require Import Reals Lra Psatz List.
From D3 Require Import Base.Ops Base.Vec Base.RVec Spec.Convex.
Import ListNotations.
Local Open Scope R_scope.

(** ** weight-list arithmetic *)
Fixpoint wadd (us vs : list R) : list R :=
  match us, vs with
  | u :: us', v :: vs' => (u + v) :: wadd us' vs'
  | _, _ => []
  end.
Definition wscale (s : R) (us : list R) : list R := map (fun u => s * u) us.

Lemma wadd_length us vs : length us = length vs -> length (wadd us vs) = length us.
Proof.
  revert vs; induction us as [|u us IH]; intros [|v vs] H; simpl in *; try discriminate; auto.
Qed.
Lemma wscale_length s us : length (wscale s us) = length us.
Proof. apply map_length. Qed.
Lemma sum_wadd us vs : length us = length vs -> sum (wadd us vs) = sum us + sum vs.
Proof.
  revert vs; induction us as [|u us IH]; intros [|v vs] H; simpl in *; try discriminate; try lra.
  rewrite IH by (injection H; auto). lra.
Qed.
Lemma sum_wscale s us : sum (wscale s us) = s * sum us.
Proof. unfold wscale. induction us as [|u us IH]; cbn [map sum]; [lra|]. rewrite IH. lra. Qed.
Lemma Forall_wadd us vs :
  Forall (fun w => 0 <= w) us -> Forall (fun w => 0 <= w) vs -> Forall (fun w => 0 <= w) (wadd us vs).
Proof.
  intros Hu; revert vs; induction Hu; intros vs Hv; destruct Hv; simpl; constructor; auto; lra.
Qed.
Lemma Forall_wscale s us :
  0 <= s -> Forall (fun w => 0 <= w) us -> Forall (fun w => 0 <= w) (wscale s us).
Proof. intros Hs Hu. unfold wscale. induction Hu; cbn [map]; constructor; auto. nra. Qed.
Lemma comb_wadd us vs ps :
  length us = length ps -> length vs = length ps ->
  comb (wadd us vs) ps = vadd (comb us ps) (comb vs ps).
Proof.
  revert vs ps; induction us as [|u us IH]; intros [|v vs] [|p ps] H1 H2; simpl in *;
    try discriminate.
  - vsimp; f_equal; ring.
  - rewrite IH by (injection H1; injection H2; auto).
    generalize (comb us ps) (comb vs ps). intros a b. vsimp; f_equal; ring.
Qed.
Lemma comb_wscale s us ps : comb (wscale s us) ps = vscale s (comb us ps).
Proof.
  unfold wscale. revert ps; induction us as [|u us IH]; intros [|p ps]; cbn [map comb];
    try (vsimp; f_equal; ring).
  rewrite IH. generalize (comb us ps). intros a. vsimp; f_equal; ring.
Qed.

Lemma comb_zeros (n : nat) ps : comb (repeat 0 n) ps = vzero.
Proof.
  revert ps; induction n; intros [|p ps]; simpl; auto.
  rewrite IHn. vsimp; f_equal; ring.
Qed.
Lemma sum_zeros n : sum (repeat 0 n) = 0.
Proof. induction n; simpl; lra. Qed.
Lemma Forall_zeros n : Forall (fun w => 0 <= w) (repeat 0 n).
Proof. induction n; simpl; constructor; auto; lra. Qed.

(** ** generators and monotonicity *)
Lemma conv_hull_In ps p : In p ps -> conv_hull ps p.
Proof.
  induction ps as [|q ps IH]; intros H; [destruct H|].
  destruct H as [->|H].
  - exists (1 :: repeat 0 (length ps)). simpl. rewrite repeat_length, sum_zeros, comb_zeros.
    repeat split; auto; try lra.
    + constructor; [lra|apply Forall_zeros].
    + vsimp; f_equal; ring.
  - destruct (IH H) as (ws & Hl & Hw & Hs & ->).
    exists (0 :: ws). simpl. repeat split; auto; try lra.
    + constructor; auto; lra.
    + generalize (comb ws ps). intros a. vsimp; f_equal; ring.
Qed.

(** non-negative combinations of points of [conv_hull qs] with total weight [s] are
    non-negative combinations of [qs] with the same total weight *)
Lemma comb_of_hull_points qs : forall ws ps,
  length ws = length ps -> Forall (fun w => 0 <= w) ws ->
  (forall p, In p ps -> conv_hull qs p) ->
  exists us, length us = length qs /\ Forall (fun w => 0 <= w) us /\ sum us = sum ws /\
             comb us qs = comb ws ps.
Proof.
  induction ws as [|w ws IH]; intros [|p ps] Hl Hw Hp; simpl in *; try discriminate.
  - exists (repeat 0 (length qs)). rewrite repeat_length, sum_zeros, comb_zeros.
    repeat split; auto. apply Forall_zeros.
  - inversion Hw as [|? ? Hw0 Hw']; subst.
    destruct (IH ps) as (us & Hul & Hun & Hus & Huc); auto.
    destruct (Hp p) as (vs & Hvl & Hvn & Hvs & Hvc); auto.
    exists (wadd (wscale w vs) us). repeat split.
    + rewrite wadd_length; rewrite wscale_length; congruence.
    + apply Forall_wadd; auto. apply Forall_wscale; auto.
    + rewrite sum_wadd, sum_wscale by (rewrite wscale_length; congruence). rewrite Hvs, Hus. lra.
    + rewrite comb_wadd, comb_wscale by (rewrite ?wscale_length; congruence).
      rewrite <- Hvc, Huc. reflexivity.
Qed.

Lemma conv_hull_mono ps qs :
  (forall p, In p ps -> conv_hull qs p) -> forall x, conv_hull ps x -> conv_hull qs x.
Proof.
  intros H x (ws & Hl & Hw & Hs & ->).
  destruct (comb_of_hull_points qs ws ps Hl Hw H) as (us & Hul & Hun & Hus & Huc).
  exists us. repeat split; auto; congruence.
Qed.

Lemma conv_hull_incl ps qs : incl ps qs -> forall x, conv_hull ps x -> conv_hull qs x.
Proof. intros H. apply conv_hull_mono. intros p Hp. apply conv_hull_In. auto. Qed.

(** ** small hulls, explicitly *)
Lemma conv_hull_1 a : conv_hull [a] a.
Proof. apply conv_hull_In. simpl; auto. Qed.

Lemma conv_hull_2 a b (u v : R) :
  0 <= u -> 0 <= v -> u + v = 1 -> conv_hull [a; b] (vadd (vscale u a) (vscale v b)).
Proof.
  intros. exists [u; v]. simpl. repeat split; auto; try lra.
  vsimp; f_equal; ring.
Qed.

Lemma conv_hull_3 a b c (u v w : R) :
  0 <= u -> 0 <= v -> 0 <= w -> u + v + w = 1 ->
  conv_hull [a; b; c] (vadd (vadd (vscale u a) (vscale v b)) (vscale w c)).
Proof.
  intros. exists [u; v; w]. simpl. repeat split; auto; try lra.
  vsimp; f_equal; ring.
Qed.

Lemma conv_hull_4 a b c d (t u v w : R) :
  0 <= t -> 0 <= u -> 0 <= v -> 0 <= w -> t + u + v + w = 1 ->
  conv_hull [a; b; c; d]
    (vadd (vadd (vadd (vscale t a) (vscale u b)) (vscale v c)) (vscale w d)).
Proof.
  intros. exists [t; u; v; w]. simpl. repeat split; auto; try lra.
  vsimp; f_equal; ring.
Qed.

(** ** minimum norm with slack, squared form (no square roots) *)
Lemma min_norm_sq_slack (ps : list V3R) (p : V3R) (tau : R) :
  (forall y, In y ps -> dot p p - tau <= dot p y) ->
  forall x, conv_hull ps x -> dot p p <= dot x x + 2 * tau.
Proof.
  intros H x Hx.
  pose proof (hull_linear_lower ps p (dot p p - tau) H x Hx) as Hl.
  assert (E : dot x x = dot p p + 2 * (dot p x - dot p p) + dot (vsub x p) (vsub x p))
    by (vsimp; ring).
  pose proof (dot_self_nonneg (vsub x p)). lra.
Qed.

(** the minimum-norm point of a hull: in the hull, and no point of the hull is closer
    to the origin *)
Definition is_min_norm (ps : list V3R) (p : V3R) : Prop :=
  conv_hull ps p /\ forall x, conv_hull ps x -> norm p <= norm x.

Lemma is_min_norm_of_kkt (ps : list V3R) (p : V3R) :
  conv_hull ps p -> (forall y, In y ps -> dot p p <= dot p y) -> is_min_norm ps p.
Proof. intros Hp H. split; auto. apply min_norm_hull; auto. Qed.

(** the minimum-norm point is unique (strict convexity of the norm) *)
Lemma is_min_norm_unique (ps : list V3R) (p q : V3R) :
  is_min_norm ps p -> is_min_norm ps q -> norm p = norm q.
Proof. intros [Hp Hpm] [Hq Hqm]. apply Rle_antisym; auto. Qed.
