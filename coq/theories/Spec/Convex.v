(** * Specification vocabulary: point sets, support points, distance bounds,
      separating directions, minimum-norm points, convex hulls of finite lists. *)
From Coq Require Import Reals Lra Psatz List.
From D3 Require Import Base.Ops Base.Vec Base.RVec.
Import ListNotations.
Local Open Scope R_scope.

Definition set3 := V3R -> Prop.

Definition convex (S : set3) : Prop :=
  forall x y t, S x -> S y -> 0 <= t <= 1 -> S (vadd (vscale (1 - t) x) (vscale t y)).

(** [s] is a point of [S] that is extreme along [d] *)
Definition is_support (S : set3) (d s : V3R) : Prop :=
  S s /\ forall x, S x -> dot x d <= dot s d.

(** every pair of points, one of each set, is at least [g] apart *)
Definition dist_ge (A B : set3) (g : R) : Prop :=
  forall a b, A a -> B b -> g <= norm (vsub a b).
(** some pair is at most [g] apart *)
Definition dist_le (A B : set3) (g : R) : Prop :=
  exists a b, A a /\ B b /\ norm (vsub a b) <= g.
Definition intersect (A B : set3) : Prop := exists x, A x /\ B x.

Definition translate (t : V3R) (S : set3) : set3 := fun x => S (vsub x t).
Definition minkowski_diff (A B : set3) : set3 := fun x => exists a b, A a /\ B b /\ x = vsub a b.

(** ** separating direction: the certificate behind every "distance >= g" verdict *)
Lemma separating_direction (A B : set3) (n : V3R) (alpha beta : R) :
  norm n = 1 ->
  (forall a, A a -> dot a n <= alpha) ->
  (forall b, B b -> beta <= dot b n) ->
  dist_ge A B (beta - alpha).
Proof.
  intros Hn HA HB a b Ha Hb.
  specialize (HA a Ha). specialize (HB b Hb).
  pose proof (cauchy_schwarz (vsub b a) n) as H.
  rewrite dot_sub_l, Hn, Rmult_1_r in H.
  rewrite norm_sub_comm. lra.
Qed.

(** not necessarily unit direction *)
Lemma separating_direction_gen (A B : set3) (n : V3R) (alpha beta : R) :
  (forall a, A a -> dot a n <= alpha) ->
  (forall b, B b -> beta <= dot b n) ->
  forall a b, A a -> B b -> beta - alpha <= norm (vsub a b) * norm n.
Proof.
  intros HA HB a b Ha Hb.
  specialize (HA a Ha). specialize (HB b Hb).
  pose proof (cauchy_schwarz (vsub b a) n) as H.
  rewrite dot_sub_l in H. rewrite norm_sub_comm. lra.
Qed.

Lemma dist_ge_pos_disjoint (A B : set3) g : 0 < g -> dist_ge A B g -> ~ intersect A B.
Proof.
  intros Hg H (x & Ha & Hb). specialize (H x x Ha Hb).
  replace (vsub x x) with (@vzero R _) in H by (vsimp; f_equal; ring).
  assert (norm (@vzero R _) = 0) by (apply norm_zero_iff; reflexivity). lra.
Qed.

(** ** minimum-norm point: the KKT-style certificate *)
Lemma min_norm_of_variational (S : set3) (p : V3R) :
  (forall y, S y -> 0 <= dot p (vsub y p)) ->
  forall x, S x -> norm p <= norm x.
Proof.
  intros H x Hx. specialize (H x Hx). rewrite dot_sub_r in H.
  pose proof (cauchy_schwarz p x) as HC.
  pose proof (norm_sq p) as Hp. pose proof (norm_nonneg p). pose proof (norm_nonneg x).
  destruct (Req_dec (norm p) 0) as [E|E]; [lra|].
  assert (0 < norm p) by lra.
  apply Rmult_le_reg_l with (norm p); auto. lra.
Qed.

(** ** convex hull of a finite list, as the set of convex combinations *)
Fixpoint comb (ws : list R) (ps : list V3R) : V3R :=
  match ws, ps with
  | w :: ws', p :: ps' => vadd (vscale w p) (comb ws' ps')
  | _, _ => vzero
  end.
Fixpoint sum (ws : list R) : R := match ws with [] => 0 | w :: ws' => w + sum ws' end.

Definition conv_hull (ps : list V3R) : set3 :=
  fun x => exists ws, length ws = length ps /\ Forall (fun w => 0 <= w) ws /\ sum ws = 1 /\
                      x = comb ws ps.

Lemma dot_comb_r (d : V3R) : forall ws ps,
  length ws = length ps ->
  dot d (comb ws ps) = sum (map (fun wp => fst wp * dot d (snd wp)) (combine ws ps)).
Proof.
  induction ws as [|w ws IH]; intros [|p ps] H; cbn [comb combine map sum fst snd length] in *; try discriminate.
  - vsimp; ring.
  - rewrite dot_add_r, dot_scale_r, IH by (injection H; auto). reflexivity.
Qed.

(** a linear functional bounded on the generators is bounded on the hull *)
Lemma comb_bound (d : V3R) (c : R) : forall ws ps,
  length ws = length ps -> Forall (fun w => 0 <= w) ws ->
  (forall p, In p ps -> dot d p <= c) -> dot d (comb ws ps) <= sum ws * c.
Proof.
  induction ws as [|w ws IH]; intros [|p ps] Hl Hw Hb; cbn [comb sum length] in *; try discriminate.
  - vsimp. lra.
  - inversion Hw as [|? ? Hw0 Hw']; subst.
    rewrite dot_add_r, dot_scale_r.
    assert (Hp : dot d p <= c) by (apply Hb; simpl; auto).
    assert (IH' : dot d (comb ws ps) <= sum ws * c).
    { apply IH; auto. intros q Hq. apply Hb. simpl; auto. }
    nra.
Qed.

Lemma hull_linear_bound (ps : list V3R) (d : V3R) (c : R) :
  (forall p, In p ps -> dot d p <= c) -> forall x, conv_hull ps x -> dot d x <= c.
Proof.
  intros Hb x (ws & Hl & Hw & Hs & ->).
  pose proof (comb_bound d c ws ps Hl Hw Hb) as H. rewrite Hs in H. lra.
Qed.

Lemma hull_linear_lower (ps : list V3R) (d : V3R) (c : R) :
  (forall p, In p ps -> c <= dot d p) -> forall x, conv_hull ps x -> c <= dot d x.
Proof.
  intros Hb x Hx.
  pose proof (hull_linear_bound ps (vneg d) (- c)) as H.
  assert (forall p, In p ps -> dot (vneg d) p <= - c).
  { intros p Hp. rewrite dot_neg_l. specialize (Hb p Hp). lra. }
  specialize (H H0 x Hx). rewrite dot_neg_l in H. lra.
Qed.

(** minimum norm over a hull from the variational inequality on the generators *)
Lemma min_norm_hull (ps : list V3R) (p : V3R) :
  (forall y, In y ps -> dot p p <= dot p y) ->
  forall x, conv_hull ps x -> norm p <= norm x.
Proof.
  intros H. apply min_norm_of_variational.
  intros y Hy. rewrite dot_sub_r.
  pose proof (hull_linear_lower ps p (dot p p) H y Hy). lra.
Qed.

(** support of a hull is attained at a generator maximising the projection *)
Lemma hull_support (ps : list V3R) (d s : V3R) :
  In s ps -> (forall p, In p ps -> dot p d <= dot s d) ->
  forall x, conv_hull ps x -> dot x d <= dot s d.
Proof.
  intros Hs Hm x Hx. rewrite (dot_comm x d).
  apply (hull_linear_bound ps d (dot s d)); auto.
  intros p Hp. rewrite dot_comm. auto.
Qed.
