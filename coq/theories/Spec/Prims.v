(** * The eleven primitive kinds of [distance3d.distance] as point sets over R.

    Poses and axes are used as given (affine images of canonical sets); nothing here
    assumes unit directions or orthonormal axes — the theorems that need them say so. *)
From Coq Require Import Reals Lra List.
From D3 Require Import Base.Ops Base.Vec Base.RVec Spec.Convex.
Import ListNotations.
Local Open Scope R_scope.

Definition point_set (p : V3R) : set3 := fun x => x = p.
Definition line_set (lp ld : V3R) : set3 := fun x => exists t, x = vadd lp (vscale t ld).
Definition segment_set (s e : V3R) : set3 :=
  fun x => exists t, 0 <= t <= 1 /\ x = vadd s (vscale t (vsub e s)).
Definition plane_set (pp pn : V3R) : set3 := fun x => dot (vsub x pp) pn = 0.
Definition triangle_set (a b c : V3R) : set3 :=
  fun x => exists v w, 0 <= v /\ 0 <= w /\ v + w <= 1 /\
                       x = vadd a (vadd (vscale v (vsub b a)) (vscale w (vsub c a))).
(** [l0], [l1] are the full side lengths, as in the code *)
Definition rectangle_set (c a0 a1 : V3R) (l0 l1 : R) : set3 :=
  fun x => exists k0 k1, Rabs k0 <= l0 / 2 /\ Rabs k1 <= l1 / 2 /\
                         x = vadd c (vadd (vscale k0 a0) (vscale k1 a1)).
(** box with centre [c], axes [ax ay az] (the columns of the pose) and full sizes [sz] *)
Definition box_set (c ax ay az sz : V3R) : set3 :=
  fun x => exists k0 k1 k2, Rabs k0 <= vx sz / 2 /\ Rabs k1 <= vy sz / 2 /\ Rabs k2 <= vz sz / 2 /\
                            x = vadd c (vadd (vscale k0 ax) (vadd (vscale k1 ay) (vscale k2 az))).
Definition disk_set (c : V3R) (r : R) (n : V3R) : set3 :=
  fun x => dot (vsub x c) n = 0 /\ dot (vsub x c) (vsub x c) <= r * r.
Definition circle_set (c : V3R) (r : R) (n : V3R) : set3 :=
  fun x => dot (vsub x c) n = 0 /\ dot (vsub x c) (vsub x c) = r * r.
Definition cylinder_set (c ax ay az : V3R) (r l : R) : set3 :=
  fun x => exists a b h, a * a + b * b <= r * r /\ Rabs h <= l / 2 /\
                         x = vadd c (vadd (vscale a ax) (vadd (vscale b ay) (vscale h az))).
(** solid ellipsoid (the code's default [distance_to_surface=False]) *)
Definition ellipsoid_set (c ax ay az radii : V3R) : set3 :=
  fun x => exists k0 k1 k2, k0 * k0 + k1 * k1 + k2 * k2 <= 1 /\
                            x = vadd c (vadd (vscale (k0 * vx radii) ax)
                                        (vadd (vscale (k1 * vy radii) ay) (vscale (k2 * vz radii) az))).

(** pose columns *)
Definition pose_x (T : Pose R) : V3R := col (rot T) 0.
Definition pose_y (T : Pose R) : V3R := col (rot T) 1.
Definition pose_z (T : Pose R) : V3R := col (rot T) 2.
Definition box_of (T : Pose R) (sz : V3R) : set3 := box_set (trans T) (pose_x T) (pose_y T) (pose_z T) sz.
Definition cylinder_of (T : Pose R) (r l : R) : set3 :=
  cylinder_set (trans T) (pose_x T) (pose_y T) (pose_z T) r l.
Definition ellipsoid_of (T : Pose R) (radii : V3R) : set3 :=
  ellipsoid_set (trans T) (pose_x T) (pose_y T) (pose_z T) radii.

(** [x] is within [tau] of the set *)
Definition near (S : set3) (x : V3R) (tau : R) : Prop := exists y, S y /\ norm (vsub x y) <= tau.

(** what C10 asks of a result [(d, p1, p2)] for primitives [A], [B] (exact version) *)
Definition feasible (A B : set3) (d : R) (p1 p2 : V3R) : Prop :=
  A p1 /\ B p2 /\ 0 <= d /\ d = norm (vsub p1 p2).
(** what C11 asks: no pair is closer than [d] *)
Definition optimal (A B : set3) (d : R) : Prop := dist_ge A B d.

Lemma feasible_zero_common (A B : set3) d p1 p2 :
  feasible A B d p1 p2 -> d = 0 -> p1 = p2 /\ A p1 /\ B p1.
Proof.
  intros (Ha & Hb & _ & Hd) Hz. rewrite Hz in Hd. symmetry in Hd.
  apply norm_zero_iff in Hd.
  assert (p1 = p2).
  { destruct p1, p2. unfold vsub, vzero in Hd. simpl in Hd.
    injection Hd as H1 H2 H3. f_equal; lra. }
  subst. auto.
Qed.

Lemma norm_le_sq (a : V3R) (t : R) : 0 <= t -> dot a a <= t * t -> norm a <= t.
Proof.
  intros Ht H. pose proof (norm_nonneg a). pose proof (norm_sq a).
  destruct (Rle_dec (norm a) t); auto. nra.
Qed.
Lemma sq_le_norm (a : V3R) (t : R) : 0 <= t -> t * t <= dot a a -> t <= norm a.
Proof.
  intros Ht H. pose proof (norm_nonneg a). pose proof (norm_sq a).
  destruct (Rle_dec t (norm a)); auto. nra.
Qed.
