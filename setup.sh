#!/bin/sh
# Build the framework from files on disk only (offline).
set -e
cd "$(dirname "$0")"
export PYTHONHASHSEED=0
/venv/bin/python -m harness.tables
./tools/coqproject.sh
cd coq
coq_makefile -f _CoqProject -o Makefile
timeout 5400 make -k -j16 COQC="timeout 900 coqc" || echo "setup: WARNING some Coq files failed to build (each check rebuilds and reports its own target)"
cd ..
# warm the numba cache used by the worker processes (outside /repo)
/venv/bin/python -m harness.warm || true
