import json, sys
sys.path.insert(0,'/verif')
from harness import compat
import numpy as np
from scipy.spatial import ConvexHull
from distance3d.colliders import MeshGraph
c = json.load(open('/verif/work/meta/hang_case_18.json'))['c1']
V = np.array(c['vertices']); T = np.array(c['pose'])
tri = np.ascontiguousarray(ConvexHull(V).simplices)
d = np.array([-8.691234360266499, -2.523684713032502, -5.7427623385981645])
dm = T[:3,:3].T @ d
start = int(sys.argv[1])
print("tri", tri.tolist()); print("d in mesh frame", dm.tolist()); print("projections", (V @ dm).tolist(), flush=True)
m = MeshGraph(T, V, tri)
m._support_function.first_idx = start
print("start", start, "->", m.support_function(d), flush=True)
